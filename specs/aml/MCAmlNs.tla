---- MODULE MCAmlNs ----
(* Leg M/G of C11: the program generator.                                                         *)
(* A behaviour builds one program token by token; the loader state `st` of AmlNs is carried       *)
(* along, so only tokens that keep the program well formed - and free of the trigger constructs   *)
(* of the findings listed in Excluded - are appended.  The state graph is the tree of program     *)
(* prefixes of the scope; every state that ends a table is a complete program and is written out  *)
(* (EmitProg) for the Go harness, which encodes it to AML and runs the real parser on it.         *)
(* Invariants: the loader's own properties (AmlNs) and Refines: the abstract multi-pass parser     *)
(* design of AmlNsImpl builds, for every complete program, exactly the namespace the loader says. *)
EXTENDS AmlNs, Json, IOUtils, CSV

CONSTANTS
  Fresh,        \* sequence of names; the i-th object declared in a program gets Fresh[i]
  PreScopes,    \* predefined scopes the generator uses as targets (subset of PredefSegs)
  MaxProd,      \* productions per table
  MaxTables, MaxDepth,
  OpenKinds, DeclKindsOn, \* kinds of scoped / plain declarations to generate
  Forms,        \* subset of {"abs", "caret", "rel", "absscope"}: name forms beyond the single segment
                \* ("absscope": absolute paths for Scope directives only, and no ^ in Scope directives)
  FieldKinds,   \* subset of {"Field", "IndexField", "BankField"} (with FieldOn)
  ScopeOn, FieldOn, MethodFlags, \* Scope directives; Field lists; set of method flag bytes ({} = no methods)
  StmtKinds,    \* subset of {"call0","call1","call2","nest","nestfirst","ret","store","ref","if","op","while","scopecall"}
  MaxStmts,
  Widths,       \* package-length widths; {} = rotate 1..4 with the position in the program
  ChainItems,   \* > 0: programs are built from that many whole "chain items" instead of single productions (see ChainItem)
  Excluded,     \* ids of findings whose trigger constructs are left out
  Emit,         \* write complete programs to IOEnv.CASES
  Bug           \* design mutant of the parser design checked by Refines ("" = none)

VARIABLES toks, st, nprod, nfresh, nstm, lastClosed
vars == <<toks, st, nprod, nfresh, nstm, lastClosed>>

I == INSTANCE AmlNsImpl

F(a, c, s) == [abs |-> a, carets |-> c, segs |-> s]
Cn(tag, v) == [t |-> tag, n |-> <<v>>]
W == IF Widths = {} THEN {1 + (Len(toks) % 4)} ELSE Widths
Depth == Len(st.stack)
\* names for the next declaration: the next unused one; with finding D3 closed also every name used before
NextNames == {Fresh[nfresh + 1]} \cup (IF "D3" \in Excluded THEN {} ELSE {Fresh[i] : i \in 1..nfresh})

UserScopes == {o.p : o \in {x \in st.ns : x.kind \in ObjKinds}}
AllScopes  == UserScopes \cup {<<>>} \cup {<<s>> : s \in PreScopes}
ChildScopes(cur) == {p \in AllScopes : Len(p) = Len(cur) + 1 /\ Prefix(p, Len(cur)) = cur}

DeclForms(nm) ==
  {F(FALSE, 0, <<nm>>)}
  \cup (IF "abs" \in Forms THEN {F(TRUE, 0, Append(p, nm)) : p \in AllScopes} ELSE {})
  \cup (IF "caret" \in Forms THEN {F(FALSE, k, <<nm>>) : k \in 1..2} ELSE {})
  \cup (IF "rel" \in Forms THEN {F(FALSE, 0, <<Last(p), nm>>) : p \in ChildScopes(Cur(st))} ELSE {})
ScopeForms ==
  {F(FALSE, 0, <<Last(p)>>) : p \in AllScopes \ {<<>>}}
  \cup (IF "abs" \in Forms \/ "absscope" \in Forms THEN {F(TRUE, 0, p) : p \in AllScopes} ELSE {})
  \cup (IF "caret" \in Forms /\ "absscope" \notin Forms THEN {F(FALSE, 1, <<Last(p)>>) : p \in AllScopes \ {<<>>}} \cup {F(FALSE, 1, <<>>)} ELSE {})
  \cup (IF "rel" \in Forms THEN ({F(FALSE, 0, <<Last(p), Last(q)>>) : p \in ChildScopes(Cur(st)), q \in AllScopes \ {<<>>}}
                                \cup {F(FALSE, 0, <<Last(p)>>) : p \in {}}) ELSE {})

OpenArgs(kd) == CASE kd = "Processor" -> <<Cn("byte", 1), [t |-> "dword", n |-> <<32768, 4112>>], Cn("byte", 6)>>
                  [] kd = "PowerRes"  -> <<Cn("byte", 2), Cn("word", 513)>>
                  [] OTHER            -> <<>>
NameVals == { Cn("byte", 200), [t |-> "dword", n |-> <<65535, 65534>>], [t |-> "qword", n |-> <<32768, 0, 1, 2>>],
              [t |-> "string", s |-> "a~ c"], [t |-> "one"],
              [t |-> "buffer", a |-> <<Cn("byte", 3)>>, n |-> <<1, 255>>],
              [t |-> "buffer", a |-> <<[t |-> "dword", n |-> <<1, 2>>]>>, n |-> <<>>],
              [t |-> "package", n |-> <<2>>, a |-> <<Cn("word", 4660), [t |-> "string", s |-> "x"]>>],
              [t |-> "package", n |-> <<5>>, a |-> <<[t |-> "zero"]>>] }
\* invocations outside method bodies: value of a Name (0..3 arguments, nested), Buffer size, OpRegion offset / length
ScopeCalls == "scopecall" \in StmtKinds
SNames == {Fresh[i] : i \in 1..(IF nfresh + 1 < Len(Fresh) THEN nfresh + 2 ELSE Len(Fresh))} \ {Fresh[nfresh + 1]}   \* declared, or the one after this declaration
SCall(m, args) == [t |-> "call", f |-> F(FALSE, 0, <<m>>), a |-> args]
K5 == Cn("byte", 5)
ScopeVals == {SCall(m, <<>>) : m \in SNames} \cup {SCall(m, <<K5>>) : m \in SNames} \cup {SCall(m, <<K5, Cn("word", 600)>>) : m \in SNames}
             \cup {SCall(m, <<K5, K5, K5>>) : m \in SNames}
             \cup {SCall(m, <<SCall(n, <<K5>>)>>) : m, n \in SNames} \cup {SCall(m, <<K5, SCall(n, <<>>)>>) : m, n \in SNames}
             \cup {[t |-> "buffer", a |-> <<SCall(m, <<K5>>)>>, n |-> <<1, 2>>] : m \in SNames}
             \cup {[t |-> "ref", f |-> F(FALSE, 0, <<m>>)] : m \in SNames}
DeclArgs(kd) == CASE kd = "Name"     -> IF ScopeCalls THEN {<<v>> : v \in ScopeVals} ELSE {<<v>> : v \in NameVals}
                  [] kd = "OpRegion" -> IF ScopeCalls
                                        THEN {<<Cn("byte", 1), o, l>> : o \in {Cn("word", 4096)} \cup {SCall(m, <<>>) : m \in SNames},
                                                                        l \in {Cn("byte", 16)} \cup {SCall(m, <<K5>>) : m \in SNames}}
                                        ELSE {<<Cn("byte", 1), Cn("word", 4096), Cn("byte", 16)>>}
                  [] kd = "Mutex"    -> {<<Cn("byte", 3)>>}
                  [] kd = "Event"    -> {<<>>}

\* the regions visible from the current scope by the search rule
Regions == {o.p : o \in {x \in st.ns : x.kind = "OpRegion" /\ SearchUp(st.ns, Cur(st), Last(x.p)) = x.p}}
FieldEls(a, b) == { <<[e |-> "unit", name |-> a, bits |-> 8, wl |-> 1]>>,
                    <<[e |-> "unit", name |-> a, bits |-> 70003, wl |-> 2], [e |-> "skip", bits |-> 4100, wl |-> 1],
                      [e |-> "access", at |-> 3, aa |-> 1], [e |-> "unit", name |-> b, bits |-> 4095, wl |-> 1]>> }

\* method bodies
\* callee / referenced names: objects declared so far, or the one declared next (a forward reference)
Names == {Fresh[i] : i \in 1..(IF nfresh < Len(Fresh) THEN nfresh + 1 ELSE nfresh)}
A0 == [t |-> "arg", n |-> <<0>>]
C5 == Cn("byte", 5)
Call(m, args) == [t |-> "call", f |-> F(FALSE, 0, <<m>>), a |-> args]
Exprs ==
  (IF "call0" \in StmtKinds THEN {Call(m, <<>>) : m \in Names} ELSE {})
  \cup (IF "call1" \in StmtKinds THEN {Call(m, <<A0>>) : m \in Names} ELSE {})
  \cup (IF "call2" \in StmtKinds THEN {Call(m, <<C5, A0>>) : m \in Names} ELSE {})
  \cup (IF "nest" \in StmtKinds THEN {Call(m, <<Call(n, <<A0>>)>>) : m, n \in Names} \cup {Call(m, <<C5, Call(n, <<>>)>>) : m, n \in Names} ELSE {})
  \cup (IF "nestfirst" \in StmtKinds THEN {Call(m, <<Call(n, <<A0>>), C5>>) : m, n \in Names} ELSE {})
  \cup (IF "ref" \in StmtKinds THEN {Call(m, <<[t |-> "ref", f |-> F(FALSE, 0, <<n>>)]>>) : m, n \in Names} ELSE {})
  \cup (IF "abs" \in Forms /\ "call1" \in StmtKinds THEN {[t |-> "call", f |-> F(TRUE, 0, Append(p, m)), a |-> <<A0>>] : p \in AllScopes, m \in Names} ELSE {})
  \cup (IF "op" \in StmtKinds THEN {Call(m, <<[t |-> "op", s |-> "Add", a |-> <<A0, C5>>], A0>>) : m \in Names} ELSE {})
Stmts ==
  {[k |-> "stmt", op |-> "call", x |-> <<e>>] : e \in Exprs}
  \cup (IF "ret" \in StmtKinds THEN {[k |-> "stmt", op |-> "ret", x |-> <<e>>] : e \in Exprs \cup {A0}} ELSE {})
  \cup (IF "store" \in StmtKinds THEN {[k |-> "stmt", op |-> "store", x |-> <<e, [t |-> "local", n |-> <<1>>]>>] : e \in Exprs} ELSE {})

Step(t, dprod, dfresh) ==
  /\ toks' = Append(toks, t)
  /\ st' = Apply(st, t)
  /\ st'.err = <<>> /\ st'.trig \cap Excluded = {}
  /\ nprod' = (IF t.k = "endtable" THEN 0 ELSE nprod + dprod) /\ nfresh' = nfresh + dfresh

Room(n) == ChainItems = 0 /\ ~InMethod(st) /\ nprod < MaxProd /\ nfresh + n <= Len(Fresh) /\ st.tab <= MaxTables
OpenObj   == /\ Room(1) /\ Depth < MaxDepth
             /\ \E kd \in OpenKinds, nm \in NextNames : \E f \in DeclForms(nm), w \in W :
                  Step([k |-> "open", kind |-> kd, f |-> f, w |-> w, args |-> OpenArgs(kd)], 1, 1)
             /\ UNCHANGED nstm /\ lastClosed' = ""
DeclObj   == /\ Room(1)
             /\ \E kd \in DeclKindsOn, nm \in NextNames : \E f \in DeclForms(nm) : \E a \in DeclArgs(kd) :
                  Step([k |-> "decl", kind |-> kd, f |-> f, args |-> a], 1, 1)
             /\ UNCHANGED nstm /\ lastClosed' = ""
OpenMethod == /\ Room(1) /\ Depth < MaxDepth
              /\ \E fl \in MethodFlags, nm \in NextNames : \E f \in DeclForms(nm), w \in W :
                   Step([k |-> "method", f |-> f, w |-> w, flags |-> fl], 1, 1)
              /\ nstm' = 0 /\ lastClosed' = ""
OpenScope == /\ ScopeOn /\ Room(0) /\ Depth < MaxDepth
             /\ \E f \in ScopeForms, w \in W : Step([k |-> "scope", f |-> f, w |-> w], 1, 0)
             /\ UNCHANGED nstm /\ lastClosed' = ""
\* field units visible from the current scope by the search rule (index / data / bank registers)
UnitsVis == {o.p : o \in {x \in st.ns : x.kind = "NamedField" /\ SearchUp(st.ns, Cur(st), Last(x.p)) = x.p}}
N1(p) == F(FALSE, 0, <<Last(p)>>)
FieldToks(w, els) ==
  (IF "Field" \in FieldKinds THEN {[k |-> "field", kind |-> "Field", f |-> N1(r), w |-> w, flags |-> 33, els |-> els] : r \in Regions} ELSE {})
  \cup (IF "IndexField" \in FieldKinds
        THEN {[k |-> "field", kind |-> "IndexField", f |-> N1(x[1]), g |-> N1(x[2]), w |-> w, flags |-> 66, els |-> els]
               : x \in {y \in UnitsVis \X UnitsVis : y[1] # y[2]}} ELSE {})
  \cup (IF "BankField" \in FieldKinds
        THEN {[k |-> "field", kind |-> "BankField", f |-> N1(r), g |-> N1(b), v |-> <<Cn("word", 300)>>, w |-> w, flags |-> 17, els |-> els]
               : r \in Regions, b \in UnitsVis} ELSE {})
DeclFieldList == /\ FieldOn /\ Room(2)
                 /\ \E w \in W : \E els \in FieldEls(Fresh[nfresh + 1], Fresh[nfresh + 2]) : \E t \in FieldToks(w, els) :
                      Step(t, 1, Cardinality({i \in 1..Len(els) : els[i].e = "unit"}))
                 /\ UNCHANGED nstm /\ lastClosed' = ""
Statement == /\ InMethod(st) /\ nprod < MaxProd /\ nstm < MaxStmts
             /\ \/ \E t \in Stmts : Step(t, 1, 0)
                \/ /\ "if" \in StmtKinds /\ Depth < MaxDepth + 1
                   /\ \E w \in W : Step([k |-> "if", x |-> <<A0>>, w |-> w], 1, 0)
                \/ /\ "if" \in StmtKinds /\ lastClosed = "if" /\ Depth < MaxDepth + 1
                   /\ \E w \in W : Step([k |-> "else", w |-> w], 1, 0)
                \/ /\ "while" \in StmtKinds /\ Depth < MaxDepth + 1
                   /\ \E w \in W, pr \in {A0, [t |-> "op", s |-> "LLess", a |-> <<A0, C5>>]} : Step([k |-> "while", x |-> <<pr>>, w |-> w], 1, 0)
             /\ nstm' = nstm + 1 /\ lastClosed' = ""
Close     == /\ st.stack # <<>>
             /\ Step([k |-> "close"], 0, 0)
             /\ UNCHANGED nstm /\ lastClosed' = Last(st.stack).t
\* (a later table may be empty)
EndOfTable == /\ st.stack = <<>> /\ (nprod > 0 \/ (st.tab > 1 /\ ChainItems = 0)) /\ st.tab <= MaxTables
              /\ Step([k |-> "endtable"], 0, 0)
              /\ UNCHANGED nstm /\ lastClosed' = ""

(* Dependency chains over several merge/relocate passes.  One step appends a whole item                  *)
(*   [Scope(\w){]  Scope(\X1){ Scope(X2){ ... Scope(Xk){  payload  } ... } }  [}]                        *)
(* that re-opens an existing scope p = X1...Xk level by level (no path runs through an object), optionally  *)
(* wrapped in a Scope directive on a predefined scope (its contents are then merged into a block that is   *)
(* visited BEFORE the table's own objects), and declares there a Device (plain, with a ^ name, or from      *)
(* anywhere with an absolute name = it arrives by relocation) or an Event.  A Scope into an object that    *)
(* arrives by relocation, into which another object arrives by a merge, ... needs one pass per link.        *)
PreFirst == CHOOSE x \in PreScopes : \A y \in PreScopes : x = "_PR_" \/ y # "_PR_"   \* the wrapper: the earliest block in tree order
SC(f) == [k |-> "scope", f |-> f, w |-> 1 + (Len(toks) % 4)]
FirstObj(p) == IF p # <<>> /\ p[1] \in PreScopes /\ Len(p) > 1 THEN 2 ELSE 1
Nest(p) == IF p = <<>> THEN <<>>
           ELSE <<SC(F(TRUE, 0, Prefix(p, FirstObj(p))))>> \o [i \in 1..(Len(p) - FirstObj(p)) |-> SC(F(FALSE, 0, <<p[FirstObj(p) + i]>>))]
Closes(n) == [i \in 1..n |-> [k |-> "close"]]
DevTok(f) == <<[k |-> "open", kind |-> "Device", f |-> f, w |-> 1, args |-> <<>>], [k |-> "close"]>>
ItemToks(p, w, pay, q) ==
  LET wrap == IF w = "" THEN <<>> ELSE <<SC(F(TRUE, 0, <<w>>))>>
      nm == Fresh[nfresh + 1]
      body == CASE pay = "dev"      -> DevTok(F(FALSE, 0, <<nm>>))
                [] pay = "devcaret" -> DevTok(F(FALSE, 1, <<nm>>))
                [] pay = "devabs"   -> DevTok(F(TRUE, 0, Append(q, nm)))
                [] pay = "event"    -> <<[k |-> "decl", kind |-> "Event", f |-> F(FALSE, 0, <<nm>>), args |-> <<>>]>>
  IN wrap \o Nest(p) \o body \o Closes(Len(wrap) + Len(Nest(p)))
ChainItem == /\ ChainItems > 0 /\ nprod < ChainItems /\ nfresh < Len(Fresh) /\ st.stack = <<>> /\ st.tab <= MaxTables
             /\ \E p \in AllScopes, w \in {"", PreFirst},
                   pay \in {"dev", "devcaret", "devabs"} \cup (IF nprod = ChainItems - 1 THEN {"event"} ELSE {}) :
                  \E q \in (IF pay = "devabs" /\ p = <<>> THEN AllScopes \ {<<>>} ELSE IF pay = "devabs" THEN {} ELSE {<<>>}) :
                    LET seq == ItemToks(p, w, pay, q)  s1 == LoadFrom(st, seq, 1) IN
                    /\ toks' = toks \o seq /\ st' = s1
                    /\ s1.err = <<>> /\ s1.trig \cap Excluded = {}
                    /\ nprod' = nprod + 1 /\ nfresh' = nfresh + 1
             /\ UNCHANGED nstm /\ lastClosed' = ""

Init == toks = <<>> /\ st = S0 /\ nprod = 0 /\ nfresh = 0 /\ nstm = 0 /\ lastClosed = ""
Next == ChainItem \/ OpenObj \/ DeclObj \/ OpenMethod \/ OpenScope \/ DeclFieldList \/ Statement \/ Close \/ EndOfTable

IsComplete == toks # <<>> /\ Last(toks).k = "endtable"

\* (lead characters at the ends of the LeadNameChar range: 'A', 'Z', '_'; digits and '_' inside)
Fresh2 == <<"AAAA", "ZB_9">>
Fresh3 == <<"AAAA", "ZB_9", "_CCC">>
Fresh4 == <<"AAAA", "ZB_9", "_CCC", "DDDD">>
Fresh5 == <<"AAAA", "ZB_9", "_CCC", "DDDD", "EEEE">>
Fresh6 == <<"AAAA", "ZB_9", "_CCC", "DDDD", "EEEE", "F123">>

\* the loader's own properties hold for every program prefix
LoaderSound == TreeShaped(st) /\ StackSound(st) /\ CallsSound(st) /\ st = Load(toks)
\* the abstract parser design builds exactly what the loader says, for every complete program
\* (programs that use a construct on which the pinned design is KNOWN to deviate are exempt: they can
\* only be generated once the finding is closed, and then AmlNsImpl has to follow the repaired code)
ImplDeviates == {"D1", "D1b", "D2", "D2c", "D10", "D11", "D12", "D13", "D14", "D15"}
Expected == [ns |-> st.ns, calls |-> [i \in 1..Len(st.calls) |-> [tab |-> st.calls[i].tab, p |-> st.calls[i].p, n |-> Len(st.calls[i].a)]]]
\* (operands that contain names are compared through the invocation list only: the design model does not render terms)
RECURSIVE UsesNames(_)
UsesNames(x) == x.t \in {"call", "ref"} \/ (x.t \in Nested /\ \E i \in 1..Len(x.a) : UsesNames(x.a[i]))
Strip(ns) == {IF \E i \in 1..Len(o.args) : UsesNames(o.args[i]) THEN [o EXCEPT !.args = <<>>] ELSE o : o \in ns}
\* the pinned design counts only relocations as progress of a pass (finding D16); the repaired one also merges.
\* While D16 is open the model follows the pinned design and a program on which it gives up is exempt.
ImplBug == IF Bug # "" THEN Bug ELSE IF "D16" \in Excluded THEN "GiveUpOnRelocationsOnly" ELSE ""
GivesUp(r) == "res" \in DOMAIN r /\ r.res = "giveup" /\ "D16" \in Excluded /\ Bug = ""
Same(r) == "res" \notin DOMAIN r /\ Strip(r.ns) = Strip(Expected.ns) /\ r.calls = Expected.calls
RefinesAll == IsComplete => Same(I!Parse(toks, ImplBug))
Refines == (IsComplete /\ st.trig \cap ImplDeviates = {}) => LET r == I!Parse(toks, ImplBug) IN GivesUp(r) \/ Same(r)
\* leg G: every complete program goes to the Go harness
\* (np = merge/relocate passes per table that the design model needs: evidence that deep dependency chains are generated)
EmitProg == (Emit /\ IsComplete) =>
              CSVWrite("%1$s", <<ToJson([toks |-> toks, np |-> IF ChainItems > 0 THEN I!Parse(toks, ImplBug).passes ELSE <<>>])>>, IOEnv.CASES)
====
