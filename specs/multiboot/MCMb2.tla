---- MODULE MCMb2 ----
(* Small scope for C10 (DESIGN 4.8).                                                               *)
(*  order family : every sequence of <= MaxTags tags over a menu of 16 representative tags (all      *)
(*                 four decoded kinds twice with different payloads = duplicates in either order,    *)
(*                 unknown tags with payload sizes giving every padding 0..7; the empty-payload      *)
(*                 corner cases - ELF tag without sections, memory map without entries, empty        *)
(*                 command line, minimal framebuffer tag - so that each also occurs LAST, flush       *)
(*                 against the inaccessible page behind the end tag)                                 *)
(*  mmap family  : entry sizes 24/32/40, <= MaxEnt entries, every type of {0..6, 2^31, 2^32-1};       *)
(*                 entry sizes 28 and 264 with two entries                                           *)
(*  cmd family   : every command line over {'a', '=', ' ', TAB} up to CmdLen characters              *)
(*  elf family   : <= MaxSec sections, empty / non-empty, every name offset, string table anywhere    *)
(*  fb family    : indexed (palettes of 0, 1, 2, 4 colours) / RGB / EGA / unknown type                *)
EXTENDS Mb2Model
CONSTANTS MaxEnt, CmdLen, MaxSec

W(n) == <<0, 0, 0, n>>
\* addresses / lengths are tied to the entry position so that order and identity are observable
AddrOf(j) == CASE j = 1 -> <<0, 0, 0, 0>> [] j = 2 -> <<0, 0, 16, 4096>> [] OTHER -> <<1, 0, 0, 0>>
LenOf(j)  == CASE j = 1 -> <<0, 0, 9, 64512>> [] j = 2 -> <<65535, 65535, 65535, 65535>> [] OTHER -> <<0, 2, 0, 1>>
Types == {<<0, 0>>, <<0, 1>>, <<0, 2>>, <<0, 3>>, <<0, 4>>, <<0, 5>>, <<0, 6>>, <<32768, 0>>, <<65535, 65535>>}
Ent(j, t) == [a |-> AddrOf(j), l |-> LenOf(j), t |-> t]
Mmap(es, ts) == [k |-> "mmap", es |-> es, ents |-> [j \in 1..Len(ts) |-> Ent(j, ts[j])]]
MmapSeeds(maxEnt) == { <<Mmap(es, ts)>> : es \in {24, 32, 40}, ts \in UNION {[1..n -> Types] : n \in 0..maxEnt} }
                     \* entry sizes that are no multiple of 8 and beyond 2^8 (two entries: the second is reached only with the right stride)
                     \cup { <<Mmap(es, <<t, u>>)>> : es \in {28, 264}, t \in {<<0, 1>>, <<0, 5>>}, u \in {<<0, 3>>, <<65535, 65535>>} }

Chars == {97, 61, 32, 9}
Cmd(s) == [k |-> "cmd", s |-> s]
CmdSeeds(maxLen) == { <<Cmd(s)>> : s \in UNION {[1..n -> Chars] : n \in 0..maxLen} }

Fb(ft, bpp, ci) == [k |-> "fb", addr |-> <<0, 0, 64768, 0>>, pitch |-> <<0, 4096>>, w |-> <<0, 1024>>, h |-> <<0, 768>>,
                    bpp |-> bpp, ft |-> ft, ci |-> ci]
FbSeeds == { <<Fb(1, 32, <<16, 8, 8, 8, 0, 8>>)>>, <<Fb(1, 16, <<11, 5, 5, 6, 0, 5>>)>>, <<Fb(1, 24, <<0, 8, 8, 8, 16, 8, 7, 7>>)>>,
             \* indexed: 16-bit colour count + 3 bytes per palette entry, sitting where an RGB layout would be
             <<Fb(0, 8, <<0, 0>>)>>, <<Fb(0, 8, <<1, 0, 255, 128, 1>>)>>, <<Fb(0, 8, <<2, 0, 16, 8, 8, 8, 0, 8>>)>>,
             <<Fb(0, 4, <<4, 0, 1, 2, 3, 4, 5, 6, 7, 8, 9, 10, 11, 12>>)>>, <<Fb(2, 16, <<>>)>>, <<Fb(2, 16, <<16, 8, 8, 8, 0, 8>>)>>, <<Fb(3, 0, <<>>)>>, <<Fb(255, 255, <<9, 9, 9, 9, 9, 9>>)>> }

\* string table "\0.a\0bc\0": names "" (0), ".a" (1), "a" (2), "bc" (4), "" (6)
StrTab == <<0, 46, 97, 0, 98, 99, 0>>
Sec(ni, fl, j, sz) == [ni |-> ni, fl |-> fl, ad |-> AddrOf(j), sz |-> sz]
StrSec == [ni |-> 4, fl |-> <<0, 0>>, ad |-> Z4, sz |-> W(7)]        \* ad is filled in by the encoder (host address)
PlainSecs(j) == { Sec(ni, fl, j, sz) : ni \in {0, 1, 2, 4}, fl \in {<<0, 6>>, <<65535, 3>>}, sz \in {Z4, <<1, 0, 0, 0>>} }
Elf(shndx, secs) == [k |-> "elf", shndx |-> shndx, secs |-> secs, strtab |-> IF secs = <<>> THEN <<>> ELSE StrTab]
ElfSeeds(maxSec) ==
  {<<Elf(0, <<StrSec>>)>>, <<Elf(0, <<>>)>>}
  \cup (IF maxSec >= 2 THEN { <<Elf(0, <<StrSec, s>>)>> : s \in PlainSecs(2) } \cup { <<Elf(1, <<s, StrSec>>)>> : s \in PlainSecs(1) } ELSE {})
  \cup (IF maxSec >= 3 THEN { <<Elf(1, <<s, StrSec, t>>)>> : s \in PlainSecs(1), t \in PlainSecs(3) }
                            \cup { <<Elf(2, <<s, t, StrSec>>)>> : s \in PlainSecs(1), t \in PlainSecs(2) } ELSE {})

Other(ty, n) == [k |-> "other", ty |-> ty, len |-> n]
MCOrderMenu == { Cmd(<<97, 61, 97>>), Cmd(<<>>),
                 Mmap(24, <<<<0, 1>>>>), Mmap(32, <<>>),
                 Fb(1, 32, <<16, 8, 8, 8, 0, 8>>), Fb(2, 16, <<>>),
                 Elf(0, <<StrSec, Sec(1, <<0, 6>>, 2, W(4096))>>), Elf(0, <<StrSec>>), Elf(0, <<>>),
                 Fb(0, 8, <<2, 0, 16, 8, 8, 8, 0, 8>>),
                 Other(2, 2), Other(-2147483642, 3), Other(10, 7), Other(3, 5), Other(7, 0), Other(262, 4) }
MCSeeds == MmapSeeds(MaxEnt) \cup CmdSeeds(CmdLen) \cup FbSeeds \cup ElfSeeds(MaxSec)
====
