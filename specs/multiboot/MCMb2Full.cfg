CONSTANTS Bug = ""  Emit = TRUE  MaxTags = 4  MaxEnt = 3  CmdLen = 5  MaxSec = 3
CONSTANT OrderMenu <- MCOrderMenu
CONSTANT Seeds <- MCSeeds
INIT Init
NEXT Next
INVARIANT NoMismatch
INVARIANT EmitCase
CHECK_DEADLOCK FALSE
