---- MODULE Mb2Trace ----
(* Trace monitor for C10: every "decode" event holds the abstract block the harness encoded (blk)  *)
(* and what the real kernel/multiboot package reported for it (obs); Mb2!Judge decides.            *)
EXTENDS Mb2, TraceLib, IOUtils
Trace == ndJsonDeserialize(IOEnv.TRACE)

VARIABLES l, mismatch
vars == <<l, mismatch>>

Init == l = 1 /\ mismatch = <<>>
Next == /\ l <= Len(Trace) /\ mismatch = <<>>
        /\ l' = l + 1
        /\ LET e == Trace[l] IN
           mismatch' = IF e.k = "decode" THEN FirstFailIn({"C10"}, l, Judge(e.blk, e.obs)) ELSE <<>>
        /\ Report(mismatch')
NoMismatch == mismatch = <<>>
Accepted == AllConsumed(Len(Trace))
====
