CONSTANTS Bug = "RgbUnlessText"  Emit = FALSE  MaxTags = 2  MaxEnt = 2  CmdLen = 2  MaxSec = 2
CONSTANT OrderMenu <- MCOrderMenu
CONSTANT Seeds <- MCSeeds
INIT Init
NEXT Next
INVARIANT NoMismatch
INVARIANT EmitCase
CHECK_DEADLOCK FALSE
