CONSTANTS Bug = ""  Emit = TRUE  MaxTags = 3  MaxEnt = 2  CmdLen = 3  MaxSec = 2
CONSTANT OrderMenu <- MCOrderMenu
CONSTANT Seeds <- MCSeeds
INIT Init
NEXT Next
INVARIANT NoMismatch
INVARIANT EmitCase
CHECK_DEADLOCK FALSE
