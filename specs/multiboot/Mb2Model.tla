---- MODULE Mb2Model ----
(***************************************************************************)
(* Design model for C10: blocks are built tag by tag (every prefix is a      *)
(* complete block once the end tag is appended) and decoded by a             *)
(* transcription of kernel/multiboot at the level of byte offsets:           *)
(*   findTagByType   cursor walk from offset 8 with an 8-byte aligned stride  *)
(*   VisitMemRegions entry walk with the stride from the tag header           *)
(*   GetBootCmdLine  size-1 characters, Fields, split at '='                  *)
(*   VisitElfSections / GetFramebufferInfo                                    *)
(* A cursor that leaves the block is a "fault", one that lands between tag   *)
(* headers or entries reads garbage ("lost").  The result has the shape of    *)
(* the observation the Go harness logs and is judged by Mb2!Judge, the very   *)
(* operator that judges the real code: NoMismatch is C10 for the design.      *)
(* Bug # "" re-creates a realistic wrong design; TLC must reject each.        *)
(***************************************************************************)
EXTENDS Mb2, TraceLib, CSV, IOUtils
CONSTANTS Bug, Emit, MaxTags,
          OrderMenu,      \* tags the builder may append (all orders, duplicates)
          Seeds           \* closed single-purpose blocks (payload families)

VARIABLES block, open, pc, obs, mismatch
vars == <<block, open, pc, obs, mismatch>>

Z2 == <<0, 0>>
NoFb == [res |-> "ok", present |-> FALSE, addr |-> Z4, pitch |-> Z2, w |-> Z2, h |-> Z2, bpp |-> 0, ft |-> 0, rgb |-> <<>>]
NoObs == [mm |-> [res |-> "ok", regs |-> <<>>], fb |-> NoFb, cmd |-> [res |-> "ok", kv |-> <<>>], elf |-> [res |-> "ok", secs |-> <<>>]]

--------------------------------------------------------------------------
\* what the scanner finds at byte offset o
HeaderAt(b, o) ==
  IF o = EndOff(b) THEN [ty |-> 0, size |-> 8, idx |-> 0]
  ELSE LET S == {i \in 1..Len(b) : Off(b, i) = o} IN
       IF S = {} THEN [ty |-> -1, size |-> 0, idx |-> 0]
       ELSE LET i == CHOOSE j \in S : TRUE IN [ty |-> TypeOf(b[i]), size |-> Size(b[i]), idx |-> i]

RECURSIVE FindR(_, _, _, _)
FindR(b, ty, cur, last) ==
  IF cur + 8 > Total(b) THEN [st |-> "fault", idx |-> 0]
  ELSE LET h == HeaderAt(b, cur) IN
    IF h.ty = -1 THEN [st |-> "lost", idx |-> 0]
    ELSE IF h.ty = 0 THEN (IF last = 0 THEN [st |-> "absent", idx |-> 0] ELSE [st |-> "found", idx |-> last])
    ELSE IF h.ty = ty /\ Bug # "LastWins" THEN [st |-> "found", idx |-> h.idx]
    ELSE FindR(b, ty, cur + (IF Bug = "NoAlign" THEN h.size ELSE Pad8(h.size)), IF h.ty = ty THEN h.idx ELSE last)
Find(b, ty) == FindR(b, ty, 8, 0)
CSize(tg) == IF Bug = "SizeWithHeader" THEN Size(tg) ELSE Size(tg) - 8      \* content length handed to the decoders

ImplNorm(t) == IF t = Z2 \/ t[1] > 0 \/ t[2] > (IF Bug = "TypeGt5" THEN 5 ELSE 4) THEN <<0, 2>> ELSE t
RECURSIVE WalkR(_, _, _, _)
WalkR(tg, p, end, acc) ==
  IF p = end THEN [res |-> "ok", regs |-> acc]
  ELSE LET k == (p - 8) \div tg.es IN
       IF (p - 8) % tg.es # 0 \/ k >= Len(tg.ents) THEN [res |-> "lost", regs |-> acc]
       ELSE WalkR(tg, p + (IF Bug = "Stride24" THEN 24 ELSE tg.es), end,
                  Append(acc, [a |-> tg.ents[k + 1].a, l |-> tg.ents[k + 1].l, t |-> ImplNorm(tg.ents[k + 1].t)]))
ImplRegions(b) == LET f == Find(b, 6) IN
  IF f.st = "absent" THEN [res |-> "ok", regs |-> <<>>]
  ELSE IF f.st # "found" THEN [res |-> f.st, regs |-> <<>>]
  ELSE WalkR(b[f.idx], 8, CSize(b[f.idx]), <<>>)

Put(acc, k, v) == IF \E j \in 1..Len(acc) : acc[j][1] = k
                  THEN [j \in 1..Len(acc) |-> IF acc[j][1] = k THEN <<k, v>> ELSE acc[j]]
                  ELSE Append(acc, <<k, v>>)
RECURSIVE KvR(_, _, _)
KvR(t, i, acc) == IF i > Len(t) THEN acc
                  ELSE LET n == Cardinality(EqPos(t[i])) IN
                       IF n = 0 THEN KvR(t, i + 1, Put(acc, t[i], t[i]))
                       ELSE IF n = 1 THEN KvR(t, i + 1, Put(acc, Entry(t[i]).k, Entry(t[i]).v))
                       ELSE KvR(t, i + 1, acc)
ImplCmd(b) == LET f == Find(b, 1) IN
  IF f.st = "absent" THEN [res |-> "ok", kv |-> <<>>]
  ELSE IF f.st # "found" THEN [res |-> f.st, kv |-> <<>>]
  ELSE LET raw == b[f.idx].s \o <<0, 238, 238, 238, 238, 238, 238, 238, 238, 238>>     \* NUL, then padding / next tag
           n == CSize(b[f.idx]) - (IF Bug = "CmdLenPlusOne" THEN 0 ELSE 1)
       IN [res |-> "ok", kv |-> KvR(Tokens(SubSeq(raw, 1, n)), 1, <<>>)]

ImplElf(b) == LET f == Find(b, 9) IN
  IF f.st = "absent" THEN [res |-> "ok", secs |-> <<>>]
  ELSE IF f.st # "found" THEN [res |-> f.st, secs |-> <<>>]
  ELSE IF Bug = "EagerStrtab" /\ Off(b, f.idx) + 20 + 64 * b[f.idx].shndx + 24 > Total(b)
       THEN [res |-> "fault", secs |-> <<>>]          \* string-table section header read before the (empty) loop
  ELSE LET tg == b[f.idx]
           keep == SelectSeq(tg.secs, LAMBDA s : Bug = "ReportEmpty" \/ s.sz # Z4)
       IN [res |-> "ok", secs |-> [j \in 1..Len(keep) |-> [n |-> CStr(tg.strtab, keep[j].ni + 1), fl |-> keep[j].fl,
                                                            ad |-> keep[j].ad, sz |-> keep[j].sz]]]

ImplFb(b) == LET f == Find(b, 8) IN
  IF f.st = "absent" THEN NoFb
  ELSE IF f.st # "found" THEN [NoFb EXCEPT !.res = f.st]
  ELSE LET tg == b[f.idx] IN
       [res |-> "ok", present |-> TRUE, addr |-> tg.addr, pitch |-> tg.pitch, w |-> tg.w, h |-> tg.h, bpp |-> tg.bpp,
        ft |-> tg.ft, rgb |-> IF tg.ft = 1 \/ (Bug = "RgbUnlessText" /\ tg.ft < 2)
                              THEN SubSeq(tg.ci \o <<0, 0, 0, 0, 8, 0>>, 1, 6)     \* (short palette: the layout aliases what follows)
                              ELSE <<>>]

ImplObs(b) == [mm |-> ImplRegions(b), fb |-> ImplFb(b), cmd |-> ImplCmd(b), elf |-> ImplElf(b)]

--------------------------------------------------------------------------
Init == /\ \/ (block = <<>> /\ open = TRUE)
           \/ (block \in Seeds /\ open = FALSE)
        /\ pc = "build" /\ obs = NoObs /\ mismatch = <<>>

AppendTag(tg) == /\ pc = "build" /\ open /\ Len(block) < MaxTags
                 /\ block' = Append(block, tg)
                 /\ UNCHANGED <<open, pc, obs, mismatch>>

\* append the end tag, hand the block to the kernel and judge what it reports
Decode == /\ pc = "build"
          /\ pc' = "done"
          /\ obs' = ImplObs(block)
          /\ mismatch' = FirstFailIn({"C10"}, Len(block), Judge(block, obs'))
          /\ UNCHANGED <<block, open>>

Next == \/ \E tg \in OrderMenu : AppendTag(tg)
        \/ Decode

NoMismatch == mismatch = <<>>
\* design-level reading of "no byte outside the block is read": the scanner only ever stands on tag headers
\* (implied by NoMismatch: a stray cursor yields res = "fault" / "lost")

\* leg G: every decoded block is written out as a case for the Go harness
EmitCase == (Emit /\ pc = "done") => CSVWrite("%1$s", <<ToJson([blk |-> block])>>, IOEnv.CASES)
====
