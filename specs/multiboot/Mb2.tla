---- MODULE Mb2 ----
(***************************************************************************)
(* C10 - what a well-formed multiboot2 information block MEANS.             *)
(*                                                                          *)
(* A block is a sequence of abstract tags (the end tag is implicit):        *)
(*   [k |-> "cmd",  s    |-> <<char codes>>]                 type 1         *)
(*   [k |-> "mmap", es   |-> entry size, ents |-> <<[a, l, t]>>]  type 6     *)
(*   [k |-> "fb",   addr, pitch, w, h (limbs), bpp, ft, ci |-> <<bytes>>]   type 8 *)
(*   [k |-> "elf",  shndx, secs |-> <<[ni, fl, ad, sz]>>, strtab |-> <<bytes>>] type 9 *)
(*        (secs may be empty: a kernel image without section headers, shndx = 0)  *)
(*   [k |-> "other", ty  |-> type, len |-> payload bytes]    any other type *)
(*        (a type >= 2^31 is written as type - 2^32: TLC integers are 32 bit)   *)
(* Wide values are limb tuples (most significant 16-bit limb first): a, l,  *)
(* ad, sz, addr have 4 limbs, t, fl, pitch, w, h have 2.                    *)
(*                                                                          *)
(* Size / Off / Total give the byte layout (8-byte aligned tag starts), the  *)
(* remaining operators give the expected decoding.  Judge compares it with   *)
(* what the real kernel/multiboot package reported for the encoded block.    *)
(* The same operators judge the design model (Mb2Model) and recorded         *)
(* executions of the real code (Mb2Trace).                                   *)
(***************************************************************************)
EXTENDS Integers, Sequences, FiniteSets, TLC

TypeOf(tg) == CASE tg.k = "cmd" -> 1 [] tg.k = "mmap" -> 6 [] tg.k = "fb" -> 8 [] tg.k = "elf" -> 9 [] OTHER -> tg.ty
\* declared tag size: header included, padding excluded
Size(tg) == CASE tg.k = "cmd"  -> 8 + Len(tg.s) + 1
              [] tg.k = "mmap" -> 16 + tg.es * Len(tg.ents)
              [] tg.k = "fb"   -> 32 + Len(tg.ci)
              [] tg.k = "elf"  -> 20 + 64 * Len(tg.secs)
              [] OTHER         -> 8 + tg.len
Pad8(n) == ((n + 7) \div 8) * 8

RECURSIVE OffR(_, _)
OffR(b, i) == IF i = 1 THEN 8 ELSE OffR(b, i - 1) + Pad8(Size(b[i - 1]))
Off(b, i) == OffR(b, i)                   \* byte offset of tag i (i = Len(b)+1: the end tag)
EndOff(b) == Off(b, Len(b) + 1)
Total(b) == EndOff(b) + 8

\* --- the first tag of a type wins; an absent tag yields an empty result
FirstIdx(b, ty) == LET S == {i \in 1..Len(b) : TypeOf(b[i]) = ty} IN
                   IF S = {} THEN 0 ELSE CHOOSE i \in S : \A j \in S : i <= j

\* --- memory regions: in order, types outside {1,2,3,4} reported as reserved (2)
NormType(t) == IF t[1] = 0 /\ t[2] \in 1..4 THEN t ELSE <<0, 2>>
Regions(b) == LET i == FirstIdx(b, 6) IN
              IF i = 0 THEN <<>>
              ELSE [j \in 1..Len(b[i].ents) |-> [a |-> b[i].ents[j].a, l |-> b[i].ents[j].l, t |-> NormType(b[i].ents[j].t)]]

\* --- command line: white-space separated entries, key=value or bare flag
WS == {9, 10, 11, 12, 13, 32}
\* the white-space separated entries of s, in order (computed from the sets of entry starts and ends
\* rather than character by character: command lines of kilobytes stay cheap for TLC)
RECURSIVE SortSet(_)
SortSet(S) == IF S = {} THEN <<>> ELSE LET m == CHOOSE x \in S : \A y \in S : x <= y IN <<m>> \o SortSet(S \ {m})
Tokens(s) == LET n == Len(s)
                 st == SortSet({i \in 1..n : s[i] \notin WS /\ (i = 1 \/ s[i - 1] \in WS)})
                 en == SortSet({i \in 1..n : s[i] \notin WS /\ (i = n \/ s[i + 1] \in WS)})
             IN [j \in 1..Len(st) |-> SubSeq(s, st[j], en[j])]
EqPos(tok) == {i \in 1..Len(tok) : tok[i] = 61}
\* an entry with two or more '=' is neither form: the statement does not say how it is reported
Ambiguous(tok) == Cardinality(EqPos(tok)) >= 2
Entry(tok) == LET E == EqPos(tok) IN
              IF E = {} THEN [k |-> tok, v |-> <<>>, bare |-> TRUE]
              ELSE LET p == CHOOSE i \in E : TRUE IN
                   [k |-> SubSeq(tok, 1, p - 1), v |-> SubSeq(tok, p + 1, Len(tok)), bare |-> FALSE]
CmdLine(b) == LET i == FirstIdx(b, 1) IN IF i = 0 THEN <<>> ELSE b[i].s
CmdTokens(b) == Tokens(CmdLine(b))
CmdConstrained(b) == LET t == CmdTokens(b) IN \A i \in 1..Len(t) : ~Ambiguous(t[i])
\* kv: sequence of <<key, value>> pairs (order immaterial).  Exactly the encoded keys are present; a
\* key=value entry reports its value; for a bare flag only its presence is fixed by the statement; a
\* key given twice may report either value.
CmdAllowed(b, kv) ==
  LET t == CmdTokens(b)
      E == {Entry(t[i]) : i \in 1..Len(t)}
  IN /\ {kv[i][1] : i \in 1..Len(kv)} = {e.k : e \in E}
     /\ \A i \in 1..Len(kv) : \E e \in E : e.k = kv[i][1] /\ (e.bare \/ e.v = kv[i][2])
     /\ \A i, j \in 1..Len(kv) : kv[i][1] = kv[j][1] => i = j

\* --- kernel ELF sections: every section with size # 0, name = NUL-terminated string at strtab + ni
RECURSIVE CStr(_, _)
CStr(st, i) == IF i > Len(st) \/ st[i] = 0 THEN <<>> ELSE <<st[i]>> \o CStr(st, i + 1)
Z4 == <<0, 0, 0, 0>>
Sections(b) == LET i == FirstIdx(b, 9) IN
               IF i = 0 THEN <<>>
               ELSE LET tg == b[i]
                        nz == SelectSeq(tg.secs, LAMBDA s : s.sz # Z4)
                    IN [j \in 1..Len(nz) |-> [n |-> CStr(tg.strtab, nz[j].ni + 1), fl |-> nz[j].fl, ad |-> nz[j].ad, sz |-> nz[j].sz]]
\* the statement does not order the sections: compare as bags
SameBag(s, t) == /\ Len(s) = Len(t)
                 /\ \A i \in 1..Len(s) : Cardinality({j \in 1..Len(s) : s[j] = s[i]}) = Cardinality({j \in 1..Len(t) : t[j] = s[i]})

\* --- framebuffer: description of the first framebuffer tag; RGB layout for direct-colour (type 1) and for no other
\* type (indexed tags carry a palette, EGA text tags nothing, where the layout would be)
FbIdx(b) == FirstIdx(b, 8)
FbAllowed(b, o) == LET i == FbIdx(b) IN
  IF i = 0 THEN ~o.present
  ELSE /\ o.present
       /\ o.addr = b[i].addr /\ o.pitch = b[i].pitch /\ o.w = b[i].w /\ o.h = b[i].h
       /\ o.bpp = b[i].bpp /\ o.ft = b[i].ft
       \* an RGB layout is reported iff the block encodes one: direct-colour (type 1) only; o.rgb = <<>> means none (nil)
       /\ o.rgb = (IF b[i].ft = 1 THEN SubSeq(b[i].ci, 1, 6) ELSE <<>>)

\* --- verdict on one observation record
\* obs = [mm |-> [res, regs], fb |-> [res, present, addr, pitch, w, h, bpp, ft, rgb],
\*        cmd |-> [res, kv], elf |-> [res, secs]],  res = "ok" | "fault" | "panic" | "hang"
Judge(b, o) == <<
  <<"C10", o.mm.res # "ok",  <<"VisitMemRegions did not return normally (fault = read outside the block)", o.mm.res>> >>,
  <<"C10", o.mm.res = "ok" /\ o.mm.regs # Regions(b), <<"memory regions", "expected", Regions(b), "got", o.mm.regs>> >>,
  <<"C10", o.fb.res # "ok",  <<"GetFramebufferInfo did not return normally", o.fb.res>> >>,
  <<"C10", o.fb.res = "ok" /\ ~FbAllowed(b, o.fb), <<"framebuffer", "tag", IF FbIdx(b) = 0 THEN <<>> ELSE <<b[FbIdx(b)]>>, "got", o.fb>> >>,
  <<"C10", o.cmd.res # "ok", <<"GetBootCmdLine did not return normally", o.cmd.res>> >>,
  <<"C10", o.cmd.res = "ok" /\ CmdConstrained(b) /\ ~CmdAllowed(b, o.cmd.kv), <<"command line", CmdLine(b), "entries", CmdTokens(b), "got", o.cmd.kv>> >>,
  <<"C10", o.elf.res # "ok", <<"VisitElfSections did not return normally (fault = read outside block and string table)", o.elf.res>> >>,
  <<"C10", o.elf.res = "ok" /\ ~SameBag(Sections(b), o.elf.secs), <<"ELF sections", "expected", Sections(b), "got", o.elf.secs>> >>
  >>
====
