CONSTANTS Bug = ""  Emit = FALSE
CONSTANTS DevWrapZero = TRUE  DevMapStartUp = TRUE  DevAllocLeak = FALSE
CONSTANT Configs <- MCFull
INIT Init
NEXT Next
INVARIANT NoMismatch
INVARIANT EmitCase
VIEW View
CHECK_DEADLOCK FALSE
