CONSTANTS Bug = ""  Emit = FALSE
CONSTANTS DevWrapZero = FALSE  DevMapStartUp = TRUE  DevAllocLeak = TRUE
CONSTANT Configs <- MCFull
INIT Init
NEXT Next
INVARIANT NoMismatch
INVARIANT EmitCase
VIEW View
CHECK_DEADLOCK FALSE
