---- MODULE GoRtTrace ----
(* Trace monitor for extra-goruntime: events recorded from the real hooks of kernel/goruntime/bootstrap.go on   *)
(* the simulated machine (64-bit words as 4x16-bit limbs, 4 KiB pages, 48-bit virtual addresses) are judged by  *)
(* the operators of GoRtProps, one event per step.                                                              *)
EXTENDS Integers, Sequences, FiniteSets, TLC, Json, IOUtils, TraceLib
CONSTANTS DevWrapZero, DevMapStartUp, DevAllocLeak
P == INSTANCE GoRtProps WITH LimbBits <- 16, NLimbs <- 4, PB <- 12, VB <- 48,
                             Dev_WrapZero <- DevWrapZero, Dev_MapStartUp <- DevMapStartUp, Dev_AllocLeak <- DevAllocLeak
Trace == ndJsonDeserialize(IOEnv.TRACE)

VARIABLES l, s, mismatch
vars == <<l, s, mismatch>>

Init == l = 1 /\ s = P!S0 /\ mismatch = <<>>
Next == /\ l <= Len(Trace) /\ mismatch = <<>>
        /\ l' = l + 1
        /\ LET m == P!Mon(s, Trace[l]) IN s' = m.s /\ mismatch' = FirstFailIn(P!AllProps, l, m.cs)
        /\ Report(mismatch')
NoMismatch == mismatch = <<>>
Accepted == TLCGet("stats").diameter - 1 = Len(Trace)
====
