CONSTANTS Bug = "CowSharesZero"  Emit = FALSE
CONSTANTS DevWrapZero = TRUE  DevMapStartUp = TRUE  DevAllocLeak = TRUE
CONSTANT Configs <- MCBugs
INIT Init
NEXT Next
INVARIANT NoMismatch
INVARIANT EmitCase
VIEW View
CHECK_DEADLOCK FALSE
