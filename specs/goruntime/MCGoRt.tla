---- MODULE MCGoRt ----
EXTENDS GoRt
\* scopes (cfg files cannot hold records)
C(f, a, mo, ops, sizes, msizes, offs) == [f |-> f, a |-> a, mo |-> mo, ops |-> ops, sizes |-> sizes, msizes |-> msizes, offs |-> offs]
AllSizes == {0, 1, 4, 5, 8, Huge, Wrap}
MSizes == {0, 3, 4, 5, 8}

MCQuick == {C(4, 3, 3, {"rsv", "map"}, {0, 1, 5, Huge, Wrap}, {0, 4, 5}, {0, 1, 4}),
            C(5, 3, 3, {"alloc", "map"}, {1, 5, Huge}, {4, 5}, {0, 1}),
            C(5, 4, 4, {"amap", "store"}, {}, {4, 5, 8}, {}),
            C(2, 4, 2, {"rsv", "alloc", "map", "amap", "store"}, {1, 8}, {4}, {0})}
MCFull  == {C(4, 3, 4, {"rsv", "map"}, AllSizes, MSizes, {0, 1, 4}),
            C(6, 4, 4, {"rsv", "alloc", "map"}, {0, 1, 5, 8, Huge, Wrap}, {0, 4, 5}, {0, 1, 4}),
            C(5, 3, 4, {"alloc", "map"}, AllSizes, MSizes, {0, 1}),
            C(4, 4, 5, {"amap", "store"}, {}, MSizes, {}),
            C(7, 4, 6, {"amap", "store"}, {}, {4, 5, 8}, {}),
            C(3, 4, 4, {"rsv", "alloc", "map", "amap", "store"}, {1, 5, 8}, {4, 5}, {0, 1}),
            C(5, 4, 4, {"rsv", "alloc", "map", "amap", "store"}, {1, 8, Huge}, {4, 5}, {0, 1}),
            C(8, 4, 4, {"rsv", "alloc", "map", "amap", "store"}, {1, 5, Wrap}, {4, 8}, {0, 1})}
MCBugs  == {C(6, 4, 3, {"rsv", "alloc", "map", "amap", "store"}, {1, 5, 8}, {4, 5, 8}, {0, 1})}
====
