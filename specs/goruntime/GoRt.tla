---- MODULE GoRt ----
(***************************************************************************)
(* Design model of the Go-runtime memory hooks over the composed machine    *)
(* (vmm's early-reservation cursor and page tables, pmm's frames), small    *)
(* integers: 10-bit addresses, 4 address units per page.                    *)
(*  - the address space that is left when the script starts is [0, A pages) *)
(*    (the cursor descends towards 0); an ARENA of pages 100.. stands for   *)
(*    the low-half pages the kernel writes to (lazy allocation);            *)
(*  - pmm hands out the lowest free frame; frame 1 is the zero frame;       *)
(*  - vmm.Map needs three page-table frames for the first page of an area   *)
(*    (pages below 64 / the arena) and refuses to map the zero frame        *)
(*    writable;                                                             *)
(*  - the hooks are modelled as the code is written (Dev_* deviations       *)
(*    included); a store to a lazily allocated page runs the copy-on-write  *)
(*    fault handler.                                                        *)
(* Every action produces the event the harness logs for the real code, and  *)
(* the events are judged by the monitor operators of GoRtProps that judge   *)
(* recorded traces: NoMismatch is R1-R6 for the design.  Bug re-creates     *)
(* realistic wrong designs (design mutants) that the monitor must reject.   *)
(***************************************************************************)
EXTENDS Integers, Sequences, FiniteSets, TLC, Json, CSV, IOUtils, TraceLib
CONSTANTS Configs,   \* [f (free frames), a (pages of address space left), mo (operations), ops, sizes, msizes, offs]
          Bug, Emit,
          DevWrapZero, DevMapStartUp, DevAllocLeak

LB == 2
NL == 5
PBits == 2
PS == 4
Top == 1024
P == INSTANCE GoRtProps WITH LimbBits <- LB, NLimbs <- NL, PB <- PBits, VB <- 10,
                             Dev_WrapZero <- DevWrapZero, Dev_MapStartUp <- DevMapStartUp, Dev_AllocLeak <- DevAllocLeak
Wd == INSTANCE Word WITH LimbBits <- LB, NLimbs <- NL
Wn(n) == Wd!FromNat(n % Top)

ZeroF == 1
ArPage == 100
Huge == 1020          \* larger than any space that can be left; its page round-up does not wrap
Wrap == 1023          \* its page round-up wraps

VARIABLES cfg, ph, st, regs, nops, script, s, mismatch
vars == <<cfg, ph, st, regs, nops, script, s, mismatch>>
\* st = [cur, pt (page -> <<frame, flags, zero-filled>>), lv ([lo, ar]: page-table levels present), fr (free frames),
\*       tb (page-table frames), stat, zf]

Min(S) == CHOOSE x \in S : \A y \in S : x <= y
RECURSIVE SeqOf(_)
SeqOf(S) == IF S = {} THEN <<>> ELSE <<Min(S)>> \o SeqOf(S \ {Min(S)})

RoundUp(x) == IF Bug = "RoundDown" THEN (x \div PS) * PS ELSE (((x + PS - 1) \div PS) * PS) % Top
Area(p) == IF p < 64 THEN "lo" ELSE "ar"

--------------------------------------------------------------------------
(* vmm.Map on the composed machine *)
RECURSIVE Tables(_, _)
Tables(t, a) ==
  IF t.lv[a] = 3 THEN [st |-> t, ok |-> TRUE]
  ELSE IF t.fr = {} THEN [st |-> t, ok |-> FALSE]
  ELSE LET f == Min(t.fr) IN Tables([t EXCEPT !.fr = @ \ {f}, !.tb = @ \cup {f}, !.lv[a] = @ + 1], a)

MapPage(t, p, f, fl, z) ==
  IF f = ZeroF /\ P!Writable(fl) THEN [st |-> t, ok |-> FALSE]         \* errAttemptToRWMapReservedFrame
  ELSE LET m == Tables(t, Area(p)) IN
       IF ~m.ok THEN m
       ELSE [st |-> [m.st EXCEPT !.pt = [q \in DOMAIN @ \cup {p} |-> IF q = p THEN <<f, fl, z>> ELSE @[q]]], ok |-> TRUE]

--------------------------------------------------------------------------
(* projection: what the harness logs *)
ChgEntry(pt, p) == Wn(p) \o (IF p \in DOMAIN pt THEN pt[p] ELSE <<0, 0, 0>>)
Obs(a, b) ==
  LET D == {p \in DOMAIN a.pt \cup DOMAIN b.pt :
              ~(p \in DOMAIN a.pt /\ p \in DOMAIN b.pt /\ a.pt[p][1] = b.pt[p][1] /\ a.pt[p][2] = b.pt[p][2])}
      ps == SeqOf(D)
  IN [chg |-> [i \in 1..Len(ps) |-> ChgEntry(b.pt, ps[i])],
      nf |-> SeqOf(a.fr \ b.fr), ff |-> SeqOf(b.fr \ a.fr), tabs |-> SeqOf(b.tb \ a.tb), tgone |-> SeqOf(a.tb \ b.tb),
      cur |-> Wn(b.cur), free |-> Cardinality(b.fr), bad |-> 0, zero |-> ZeroF, zf |-> b.zf]

EmptyPt == [q \in {} |-> <<0, 0, 0>>]
St0 == [cur |-> cfg.a * PS, pt |-> EmptyPt, lv |-> [lo |-> 0, ar |-> 0], fr |-> 2..(1 + cfg.f), tb |-> {}, stat |-> 0, zf |-> 1]
EvBoot == [k |-> "boot", res |-> "ok", tmp |-> Wn(0), cur |-> Wn(cfg.a * PS), zero |-> ZeroF, zf |-> 1, free |-> cfg.f]

--------------------------------------------------------------------------
(* the hooks as written *)
\* sysReserve
HReserve(t, size) ==
  LET r == RoundUp(size) IN
  IF r > t.cur THEN [st |-> t, res |-> "panic", ret |-> 0, rfl |-> 0]
  ELSE [st |-> [t EXCEPT !.cur = @ - r], res |-> "ok", ret |-> t.cur - r, rfl |-> 1]

\* sysMap
RECURSIVE MapLoop(_, _, _)
MapLoop(t, p, k) ==
  IF k = 0 THEN [st |-> t, ok |-> TRUE]
  ELSE LET m == MapPage(t, p, ZeroF, IF Bug = "MapRW" THEN P!FlRW ELSE P!FlCow, 1) IN
       IF ~m.ok THEN m ELSE MapLoop(m.st, p + 1, k - 1)
HMap(t, addr, size, rsvd) ==
  IF rsvd = 0 /\ Bug # "NoRsvCheck" THEN [st |-> t, res |-> "panic", ret |-> 0]
  ELSE LET start == RoundUp(addr)
           r == RoundUp(size)
           n == IF Bug = "MapOffByOne" /\ r > PS THEN (r \div PS) - 1 ELSE r \div PS
           m == MapLoop(t, start \div PS, n)
       IN IF ~m.ok THEN [st |-> m.st, res |-> "ok", ret |-> 0]
          ELSE [st |-> [m.st EXCEPT !.stat = @ + (IF Bug = "StatUnrounded" THEN size ELSE r)], res |-> "ok", ret |-> start]

\* sysAlloc
RECURSIVE AllocLoop(_, _, _, _)
AllocLoop(t, p, k, shared) ==
  IF k = 0 THEN [st |-> t, ok |-> TRUE]
  ELSE IF shared = 0 /\ t.fr = {} THEN [st |-> t, ok |-> FALSE]
  ELSE LET f == IF shared # 0 THEN shared ELSE Min(t.fr)
           t1 == [t EXCEPT !.fr = @ \ {f}]
           m == MapPage(t1, p, f, P!FlRW, IF Bug = "NoZero" THEN 0 ELSE 1)
       IN IF ~m.ok THEN m ELSE AllocLoop(m.st, p + 1, k - 1, shared)
HAlloc(t, size) ==
  LET r == RoundUp(size) IN
  IF r > t.cur THEN [st |-> t, ret |-> 0]
  ELSE LET t1 == [t EXCEPT !.cur = @ - r]
           sh == IF Bug = "ReuseFrame" /\ t1.fr # {} THEN Min(t1.fr) ELSE 0
           m == AllocLoop(t1, t1.cur \div PS, r \div PS, sh)
       IN IF ~m.ok THEN [st |-> m.st, ret |-> 0]
          ELSE [st |-> [m.st EXCEPT !.stat = @ + (IF Bug = "StatUnrounded" THEN size ELSE r)], ret |-> t1.cur]

\* a store to page p: the CPU, the page-fault handler of vmm
HStore(t, p) ==
  LET v == IF p \in DOMAIN t.pt THEN t.pt[p] ELSE <<0, 0, 0>> IN
  IF P!Present(v[2]) /\ P!Writable(v[2]) THEN [st |-> [t EXCEPT !.pt[p] = <<v[1], v[2], 0>>], res |-> "ok", nfl |-> 0]
  ELSE IF P!Present(v[2]) /\ P!Cow(v[2])
  THEN IF Bug = "CowSharesZero" THEN [st |-> [t EXCEPT !.pt[p] = <<v[1], P!FlRW, 0>>, !.zf = 0], res |-> "ok", nfl |-> 1]
       ELSE IF t.fr = {} THEN [st |-> t, res |-> "panic", nfl |-> 1]
       ELSE LET f == Min(t.fr) IN [st |-> [t EXCEPT !.fr = @ \ {f}, !.pt[p] = <<f, P!FlRW, 0>>], res |-> "ok", nfl |-> 1]
  ELSE [st |-> t, res |-> "panic", nfl |-> 1]

--------------------------------------------------------------------------
Judge(e) == LET m == P!Mon(s, e) IN [s |-> m.s, mm |-> FirstFailIn(P!AllProps, nops + 1, m.cs)]

Step(t2, e, op) ==
  /\ LET j == Judge(e @@ Obs(st, t2)) IN s' = j.s /\ mismatch' = j.mm
  /\ st' = t2 /\ nops' = nops + 1 /\ script' = Append(script, op)
  /\ UNCHANGED cfg

CanOp == ph = "up" /\ nops < cfg.mo /\ mismatch = <<>>

Init == /\ cfg \in Configs
        /\ ph = "up" /\ st = St0 /\ regs = <<>> /\ nops = 0 /\ script = <<>>
        /\ s = P!Mon(P!S0, EvBoot).s /\ mismatch = <<>>

Reserve(size) ==
  /\ CanOp /\ "rsv" \in cfg.ops
  /\ LET h == HReserve(st, size) IN
     /\ Step(h.st, [k |-> "rsv", size |-> Wn(size), res |-> h.res, ret |-> Wn(h.ret), rfl |-> h.rfl], <<1, size>>)
     /\ regs' = Append(regs, [a |-> h.ret, ok |-> h.res = "ok"])
  /\ ph' = ph

Alloc(size) ==
  /\ CanOp /\ "alloc" \in cfg.ops
  /\ LET h == HAlloc(st, size) IN
     /\ Step(h.st, [k |-> "alloc", size |-> Wn(size), res |-> "ok", ret |-> Wn(h.ret), s0 |-> Wn(st.stat), s1 |-> Wn(h.st.stat), nfl |-> 0], <<3, size>>)
     /\ regs' = Append(regs, [a |-> h.ret, ok |-> h.ret # 0 \/ h.st.stat # st.stat])
  /\ ph' = ph

MapAt(addr, size, v, op) ==
  LET h == HMap(st, addr, size, v) IN
  /\ Step(h.st, [k |-> "map", addr |-> Wn(addr), size |-> Wn(size), rsvd |-> v, res |-> h.res, ret |-> Wn(h.ret),
                 s0 |-> Wn(st.stat), s1 |-> Wn(h.st.stat)], op)
  /\ UNCHANGED regs /\ ph' = ph

Map(r, off, size, v) ==
  /\ CanOp /\ "map" \in cfg.ops /\ r \in 1..Len(regs) /\ regs[r].ok
  /\ MapAt(regs[r].a + off, size, v, <<2, r - 1, off, size, v>>)

MapArena(u, off, size) ==
  /\ CanOp /\ "amap" \in cfg.ops
  /\ MapAt(ArPage * PS + u * PS + off, size, 1, <<2, 100, u * PS + off, size, 1>>)

Store(u) ==
  /\ CanOp /\ "store" \in cfg.ops
  /\ LET h == HStore(st, ArPage + u) IN
     /\ Step(h.st, [k |-> "store", p |-> Wn(ArPage + u), res |-> h.res, nfl |-> h.nfl, hz |-> 1], <<4, u, 0>>)
     /\ ph' = IF h.res = "ok" THEN ph ELSE "dead"
  /\ UNCHANGED regs

Finish ==
  /\ ph \in {"up", "dead"} /\ (nops = cfg.mo \/ ph = "dead" \/ mismatch # <<>>)
  /\ ph' = "done"
  /\ UNCHANGED <<cfg, st, regs, nops, script, s, mismatch>>

Next == \/ \E z \in cfg.sizes : Reserve(z) \/ Alloc(z)
        \/ \E r \in 1..3, o \in cfg.offs, z \in cfg.msizes, v \in {0, 1} : (v = 1 \/ (o = 0 /\ z = PS)) /\ Map(r, o, z, v)
        \/ \E u \in 0..2, o \in {0, 1}, z \in cfg.msizes : u * PS + o + z <= 3 * PS /\ MapArena(u, o, z)
        \/ \E u \in 0..2 : Store(u)
        \/ Finish

NoMismatch == mismatch = <<>>

\* leg G: every explored behaviour is written out as a case for the Go harness
EmitCase == (Emit /\ ph = "done") =>
              CSVWrite("%1$s", <<ToJson([f |-> cfg.f, a |-> cfg.a, script |-> script])>>, IOEnv.CASES)

View == <<cfg, ph, st, regs, nops, s, mismatch>>
====
