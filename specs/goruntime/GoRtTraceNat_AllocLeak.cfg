CONSTANTS DevWrapZero = TRUE  DevMapStartUp = TRUE  DevAllocLeak = FALSE
INIT Init
NEXT Next
POSTCONDITION Accepted
CHECK_DEADLOCK FALSE
