CONSTANTS DevWrapZero = TRUE  DevMapStartUp = TRUE  DevAllocLeak = TRUE
INIT Init
NEXT Next
POSTCONDITION Accepted
CHECK_DEADLOCK FALSE
