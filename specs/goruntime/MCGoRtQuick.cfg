CONSTANTS Bug = ""  Emit = TRUE
CONSTANTS DevWrapZero = TRUE  DevMapStartUp = TRUE  DevAllocLeak = TRUE
CONSTANT Configs <- MCQuick
INIT Init
NEXT Next
INVARIANT NoMismatch
INVARIANT EmitCase
VIEW View
CHECK_DEADLOCK FALSE
