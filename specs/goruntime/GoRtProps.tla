---- MODULE GoRtProps ----
(***************************************************************************)
(* extra-goruntime: the Go-runtime memory hooks of kernel/goruntime/        *)
(* bootstrap.go (sysReserve, sysMap, sysAlloc, getRandomData, nanotime,     *)
(* Init, SetCPUCount), composed with the real vmm and pmm.                  *)
(*                                                                          *)
(* Property statements (PS = page size, up(x) = x rounded up to a multiple  *)
(* of PS, "zero frame" = vmm.ReservedZeroedFrame):                          *)
(*  R1 sysReserve(size) reserves a region of up(size) bytes of kernel       *)
(*     address space: it returns a page-aligned address, sets *reserved =   *)
(*     true, the region lies inside the space this call took from vmm's     *)
(*     reservation area, which nothing reserved before (so regions of       *)
(*     successive calls, of sysAlloc and earlier reservations never         *)
(*     overlap), it establishes no mapping and takes no frame; when the     *)
(*     space cannot be reserved it panics and changes nothing.              *)
(*  R2 sysMap(addr, size, reserved, stat) with reserved = false panics      *)
(*     before any effect.  Otherwise every page of                          *)
(*     [up(addr), up(addr) + up(size)) ends up mapped to the zero frame     *)
(*     with exactly Present|NoExecute|CopyOnWrite (never writable), no      *)
(*     other page changes, no frame is taken apart from page-table frames,  *)
(*     *stat grows by exactly up(size) and the result is up(addr).  When a  *)
(*     mapping fails (only for lack of RAM) the result is 0 and *stat is    *)
(*     unchanged; pages mapped before the failure stay mapped.              *)
(*  R3 sysAlloc(size, stat) reserves up(size) bytes as R1 does and maps     *)
(*     every page of the region to a distinct frame freshly obtained from   *)
(*     pmm (never the zero frame, never a frame mapped elsewhere) with      *)
(*     exactly Present|NoExecute|RW; every byte of the region reads zero;   *)
(*     *stat grows by up(size); the result is the region start.  When the   *)
(*     reservation fails, or RAM runs out, the result is 0 and *stat is     *)
(*     unchanged (nothing is demanded of the content or flags of pages a    *)
(*     failed call leaves behind, see Dev_AllocLeak).                       *)
(*  R4 A store to a page sysMap established goes through the page-fault     *)
(*     handler vmm.Init installed exactly once and gives that page a        *)
(*     private, writable, zero-filled frame freshly obtained from pmm; no   *)
(*     other page changes (they stay on the zero frame); later stores to    *)
(*     the page do not fault.  Without a free frame the fault never resumes.*)
(*  R5 getRandomData(r) fills every byte of r and nothing behind it; the    *)
(*     bytes are a deterministic function of prngSeed and the stream        *)
(*     continues across calls (n bytes then m bytes = n+m bytes at once,    *)
(*     same final seed).  nanotime returns the constant 1 (monotone).  Init *)
(*     calls mallocInit, algInit, modulesInit, typeLinksInit, itabsInit,    *)
(*     procResize(1), initGoPackages exactly once each in that order and    *)
(*     returns nil; SetCPUCount(n) calls procResize(n) once.  None of them  *)
(*     (and not the package's own init()) touches the machine.              *)
(*  R6 Frame accounting of the composed system: the hooks never give a      *)
(*     frame back; every frame that leaves pmm during a call is a page      *)
(*     table of the active address space or the frame of a page the call    *)
(*     mapped; the zero frame stays zero-filled, is never mapped writable   *)
(*     and never handed out.                                                *)
(*                                                                          *)
(* Deviations of the pinned tree from a natural reading of its comments /   *)
(* of the runtime contract it replaces (the switch is TRUE = model what the *)
(* code does; FALSE = the natural reading, which the code then violates):   *)
(*  Dev_WrapZero   a size above 2^64 - PS: the page round-up wraps to 0 and *)
(*     the hooks treat the request as size 0: sysReserve / sysAlloc succeed *)
(*     with an empty region, sysMap maps nothing and reports success.       *)
(*     Natural: such a request cannot be satisfied (panic / 0, no effect).  *)
(*     TRUE tolerates the size-0 treatment; refusing is always accepted.    *)
(*  Dev_MapStartUp sysMap rounds an unaligned addr UP and does not adjust   *)
(*     the size: the page holding addr itself is NOT mapped and the range   *)
(*     ends up(addr) - addr bytes later than addr + size: a sysMap of the   *)
(*     last page(s) of a reserved region with an unaligned addr maps one    *)
(*     page OUTSIDE the region (whatever was reserved before it: another    *)
(*     heap region or the frame allocator's own tables).  Natural: the      *)
(*     pages covering [addr, addr + size).                                  *)
(*  Dev_AllocLeak  when sysAlloc fails after the reservation succeeded it   *)
(*     releases nothing: the address space stays reserved, the pages mapped *)
(*     so far stay mapped to their frames and a frame whose mapping failed  *)
(*     is lost.  Natural: a failed call leaves the machine unchanged.       *)
(*                                                                          *)
(* Written once as a *monitor* (operators from monitor state s and observed *)
(* event e to the next state plus a list of checks <<property, failed?,     *)
(* explanation>>), shared by the design model GoRt.tla and the trace        *)
(* monitor GoRtTrace.tla.                                                   *)
(*                                                                          *)
(* Events.  Addresses, sizes and the stat counter are words (limb tuples);  *)
(* frames, flags and counters are integers.  Every event but boot / reset   *)
(* carries the OBSERVATION of what the step changed:                        *)
(*   chg    <<k_1..k_NLimbs, frame, flags, z>> for every page whose last-   *)
(*          level entry differs from before: k = page key (address bits     *)
(*          PB..VB-1 as a word), flags = low 12 bits of the entry + NX<<12  *)
(*          (0 = not present any more), z = 1 iff the frame is zero-filled  *)
(*   nf ff  frames newly marked / no longer marked in pmm's bitmap          *)
(*   tabs tgone  page-table frames that appeared / disappeared              *)
(*   cur    vmm's reservation cursor;  free  frames pmm has left            *)
(*   zero zf  the zero frame and whether it is still zero-filled; bad = 0   *)
(*  boot   res tmp cur zero zf free arena                                   *)
(*  pkginit igp       what bootstrap.go's init() did (igp = 1: the          *)
(*                    initGoPackagesFn seam is bound to main.init)          *)
(*  hold   res        the rest of the kernel took frames (nf)               *)
(*  rsv    size res ret rfl                 sysReserve                      *)
(*  map    addr size rsvd res ret s0 s1     sysMap (s0/s1 = *stat before /  *)
(*                                          after)                          *)
(*  alloc  size res ret s0 s1               sysAlloc                        *)
(*  store  p res nfl hz    a store to page p: nfl = faults delivered, hz =  *)
(*                         1 iff each frame a fault installed was zero-     *)
(*                         filled when the handler returned                 *)
(*  rnd    seed n m a b c t1 t2 sa sc res   the stream experiment           *)
(*  nano   v res;  init calls ret res;  cpu n calls res                     *)
(*  res = "ok" (the call returned), "panic" (it panicked with a kernel      *)
(*  error / message), "crash: .." (run-time fault of the code under test).  *)
(*                                                                          *)
(* Domain (quantifier): sysMap is never asked to map pages at or above the  *)
(* reservation cursor the boot left behind (kernel image, allocator tables) *)
(* and at most 4096 pages at a time; stores go to arena pages.              *)
(* Not constrained: which free frame pmm hands out; how many page tables a  *)
(* mapping needs; the value of the PRNG stream; WHERE vmm places a region   *)
(* and how much more than up(size) it takes from the reservation area       *)
(* (placement / alignment slack are vmm.EarlyReserveRegion's policy: the    *)
(* region is taken from what the call returned and judged for membership).  *)
(***************************************************************************)
EXTENDS Integers, Sequences, FiniteSets
CONSTANTS LimbBits, NLimbs, PB, VB,
          Dev_WrapZero, Dev_MapStartUp, Dev_AllocLeak
W == INSTANCE Word

Wn(n) == W!FromNat(n)
SetOf(q) == {q[i] : i \in 1..Len(q)}

FlCow == 4609        \* Present | CopyOnWrite (bit 9) | NoExecute (bit 63, logged as bit 12)
FlRW  == 4099        \* Present | RW | NoExecute
Present(fl)  == fl % 2 = 1
Writable(fl) == (fl \div 2) % 2 = 1
Cow(fl)      == (fl \div 512) % 2 = 1

\* chg entries
Key(c) == SubSeq(c, 1, NLimbs)
CF(c)  == c[NLimbs + 1]
CFl(c) == c[NLimbs + 2]
CZ(c)  == c[NLimbs + 3]
Keys(chg) == {Key(chg[i]) : i \in 1..Len(chg)}

\* the MMU translates address bits PB..VB-1
PKey(addr) == W!LowBits(W!ShiftR(addr, PB), VB - PB)
Dist(p, q) == W!LowBits(W!Sub(p, q), VB - PB)
InRange(p, startKey, nw) == W!Lt(Dist(p, startKey), nw)
Aligned(a) == W!IsZero(W!LowBits(a, PB))

\* map: the last-level entries changed since the boot, as a set of <<k_1..k_NLimbs, frame, flags>>
S0 == [ph |-> "off", cur |-> W!Zero, map |-> {}, priv |-> {}, tabs |-> {}, zero |-> 0, free |-> 0]

Pick(S) == IF S = {} THEN "-" ELSE CHOOSE x \in S : TRUE

--------------------------------------------------------------------------
(* the page tables as the monitor knows them: pages changed since the boot *)
Entry(c) == SubSeq(c, 1, NLimbs + 2)
Apply(map, chg) ==
  LET ck == Keys(chg) IN
  {x \in map : Key(x) \notin ck} \cup {Entry(chg[i]) : i \in {j \in 1..Len(chg) : Present(CFl(chg[j]))}}
\* <<frame, flags>> of a page (<<0, 0>> = not mapped as far as the monitor knows)
Lookup(map, p) == LET X == {x \in map : Key(x) = p} IN IF X = {} THEN <<0, 0>> ELSE LET x == CHOOSE y \in X : TRUE IN <<CF(x), CFl(x)>>

NewPriv(s, chg) == {CF(chg[i]) : i \in {j \in 1..Len(chg) : Present(CFl(chg[j])) /\ CF(chg[j]) # s.zero}}
OldPriv(s, chg) == IF chg = <<>> THEN {} ELSE LET ck == Keys(chg) IN {CF(x) : x \in {y \in s.map : Key(y) \in ck}} \ {s.zero}

\* the next monitor state after an accepted observation
Next(s, e) == [s EXCEPT !.cur = e.cur, !.map = Apply(s.map, e.chg), !.free = e.free,
                        !.priv = (s.priv \ OldPriv(s, e.chg)) \cup NewPriv(s, e.chg),
                        !.tabs = s.tabs \cup SetOf(e.tabs)]

\* R6 + the parts of R2/R3 that hold for every step: judged on the observation alone
Machine(s, e) ==
  LET nf == SetOf(e.nf)
      np == NewPriv(s, e.chg)
      nPrivEntries == Cardinality({j \in 1..Len(e.chg) : Present(CFl(e.chg[j])) /\ CF(e.chg[j]) # s.zero})
      oldPairs == {SubSeq(x, 1, NLimbs + 1) : x \in s.map}
      keeps(j) == SubSeq(e.chg[j], 1, NLimbs + 1) \in oldPairs       \* the page keeps its frame (only its flags change)
      stale == {j \in 1..Len(e.chg) : Present(CFl(e.chg[j])) /\ CF(e.chg[j]) # s.zero /\ CF(e.chg[j]) \notin nf /\ ~keeps(j)}
      zrw == {j \in 1..Len(e.chg) : Present(CFl(e.chg[j])) /\ CF(e.chg[j]) = s.zero /\ Writable(CFl(e.chg[j]))}
  IN <<
    <<"R6", e.bad # 0, "the page tables point outside physical memory or the allocator's tables cannot be read">>,
    <<"R6", e.ff # <<>>, <<"a frame was given back to the allocator", e.ff>> >>,
    <<"R6", e.tgone # <<>>, <<"a page table disappeared", e.tgone>> >>,
    <<"R6", e.zero # s.zero, <<"the zero frame changed", e.zero>> >>,
    <<"R6", e.zf # 1, "the zero frame is no longer zero-filled">>,
    <<"R6", s.zero \in nf, "the zero frame was handed out by the allocator">>,
    <<"R6", e.free # s.free - Cardinality(nf), <<"free frames do not match the frames taken", s.free, e.free, Cardinality(nf)>> >>,
    <<"R6", ~(SetOf(e.tabs) \subseteq nf), <<"a new page table does not come from the allocator", e.tabs>> >>,
    <<"R2", zrw # {}, <<"the zero frame is mapped writable", IF zrw = {} THEN <<>> ELSE e.chg[Pick(zrw)]>> >>,
    <<"R3", stale # {}, <<"a page was mapped to a frame that was not freshly obtained from the allocator",
                          IF stale = {} THEN <<>> ELSE e.chg[Pick(stale)]>> >>,
    <<"R3", Cardinality(np) # nPrivEntries, "two pages were mapped to the same frame">>,
    <<"R3", np \cap ((s.priv \ OldPriv(s, e.chg)) \cup s.tabs \cup SetOf(e.tabs)) # {},
            <<"a page was mapped to a frame that is mapped elsewhere or is a page table", Pick(np \cap (s.priv \cup s.tabs \cup SetOf(e.tabs)))>> >>
  >>

\* a step that must not touch the machine
Quiet(s, e, prop, who) ==
  << <<prop, e.chg # <<>>, <<who, "changed a mapping", e.chg>> >>,
     <<prop, e.nf # <<>>, <<who, "took frames", e.nf>> >>,
     <<prop, e.cur # s.cur, <<who, "moved the reservation cursor", e.cur>> >> >>

Crashed(e) == e.res \notin {"ok", "panic"}
NoCrash(prop, e) == << <<prop, Crashed(e), <<"run-time fault / unexpected outcome of the code under test", e.res>> >> >>

--------------------------------------------------------------------------
(* R1 *)
MonRsv(s, e) ==
  LET r == W!RoundUpC(e.size, PB)
      wrap == r.c = 1
      R == IF wrap THEN W!Zero ELSE r.v
      mustFail == (wrap /\ ~Dev_WrapZero) \/ W!Lt(s.cur, R)
      mayFail == wrap                   \* a wrapping size may also be refused (the natural reading is always tolerated)
      end == W!AddC(e.ret, R)
  IN IF mustFail \/ (mayFail /\ e.res = "panic")
     THEN [s |-> s, cs |-> NoCrash("R1", e) \o
            << <<"R1", e.res # "panic", <<"a reservation that cannot be satisfied must panic", e.res, e.size>> >> >> \o
            Quiet(s, e, "R1", "a failed sysReserve") \o Machine(s, e)]
     ELSE [s |-> Next(s, e), cs |-> NoCrash("R1", e) \o
            << <<"R1", e.res # "ok", <<"sysReserve failed although the space is there", e.res, e.size>> >>,
               <<"R1", e.res = "ok" /\ e.rfl # 1, "*reserved was not set">>,
               <<"R1", e.res = "ok" /\ ~Aligned(e.ret), <<"the region is not page-aligned", e.ret>> >>,
               <<"R1", e.res = "ok" /\ ~(W!Le(e.cur, e.ret) /\ end.c = 0 /\ W!Le(end.v, s.cur)),
                       <<"the region is not inside the space this call reserved (overlap)", e.ret, s.cur, e.cur>> >>,
               <<"R1", e.chg # <<>>, <<"sysReserve changed a mapping", e.chg>> >>,
               <<"R1", e.nf # <<>>, <<"sysReserve took frames", e.nf>> >> >> \o Machine(s, e)]

(* R2 *)
MonMap(s, e) ==
  LET ra == W!RoundUpC(e.addr, PB)
      rs == W!RoundUpC(e.size, PB)
      wrap == rs.c = 1
      R == IF wrap THEN W!Zero ELSE rs.v
      S == IF Dev_MapStartUp THEN ra.v ELSE W!RoundDown(e.addr, PB)
      span == IF Dev_MapStartUp THEN R
              ELSE IF W!IsZero(R) THEN W!Zero ELSE W!Sub(W!RoundUpC(W!Add(e.addr, e.size), PB).v, S)
      Nw == W!ShiftR(span, PB)
      sk == PKey(S)
      ck == Keys(e.chg)
      inr == {i \in 1..Len(e.chg) : InRange(Key(e.chg[i]), sk, Nw)}
      stray == (1..Len(e.chg)) \ inr
      wrong == {i \in inr : ~(CF(e.chg[i]) = s.zero /\ CFl(e.chg[i]) = FlCow)}
      success == e.ret = S /\ e.s1 = W!Add(e.s0, R)
      failure == W!IsZero(e.ret) /\ e.s1 = e.s0
      covered == W!FitsNat(Nw) /\
                 Cardinality(ck) + (IF Cardinality(ck) = W!ToNat(Nw) THEN 0
                                    ELSE Cardinality({x \in s.map : Key(x) \notin ck /\ CF(x) = s.zero /\ CFl(x) = FlCow /\ InRange(Key(x), sk, Nw)})) = W!ToNat(Nw)
      mustFail == wrap /\ ~Dev_WrapZero
  IN IF e.rsvd = 0
     THEN [s |-> s, cs |-> NoCrash("R2", e) \o
            << <<"R2", e.res # "panic", <<"sysMap with reserved = false must panic", e.res>> >>,
               <<"R2", e.s1 # e.s0, "sysMap with reserved = false changed *stat">> >> \o
            Quiet(s, e, "R2", "sysMap with reserved = false") \o Machine(s, e)]
     ELSE [s |-> Next(s, e), cs |-> NoCrash("R2", e) \o
            << <<"R2", e.res # "ok", <<"sysMap panicked", e.res>> >>,
               <<"R2", stray # {}, <<"sysMap changed a page outside the range", IF stray = {} THEN <<>> ELSE e.chg[Pick(stray)]>> >>,
               <<"R2", wrong # {}, <<"a page of the range is not mapped to the zero frame with Present|NoExecute|CopyOnWrite",
                                     IF wrong = {} THEN <<>> ELSE e.chg[Pick(wrong)]>> >>,
               <<"R2", e.res = "ok" /\ ~success /\ ~failure,
                       <<"the result is neither (addr rounded up, *stat grown by the size rounded up) nor (0, *stat unchanged)", e.ret, e.s0, e.s1>> >>,
               <<"R2", e.res = "ok" /\ success /\ ~(failure /\ W!IsZero(Nw)) /\ ~covered, "sysMap reports success but not every page of the range is mapped">>,
               <<"R2", e.res = "ok" /\ success /\ ~failure /\ mustFail, "a size whose page round-up wraps cannot be mapped">>,
               <<"R2", e.res = "ok" /\ failure /\ ~success /\ ~wrap /\ e.free # 0, "sysMap failed although the allocator has frames left">>,
               <<"R2", e.res = "ok" /\ failure /\ ~success /\ wrap /\ (e.chg # <<>> \/ e.nf # <<>>), "a refused sysMap changed the machine">>,
               <<"R2", SetOf(e.nf) # SetOf(e.tabs), <<"sysMap took frames that are not page tables", e.nf, e.tabs>> >>,
               <<"R2", e.cur # s.cur, "sysMap moved the reservation cursor">> >> \o Machine(s, e)]

(* R3 *)
MonAlloc(s, e) ==
  LET rs == W!RoundUpC(e.size, PB)
      wrap == rs.c = 1
      R == IF wrap THEN W!Zero ELSE rs.v
      noFit == (wrap /\ ~Dev_WrapZero) \/ W!Lt(s.cur, R)
      \* the region is what the call returned: any page-aligned region of the rounded size inside the space this call
      \* took from the reservation area is legal (placement is vmm's policy, not the hook's)
      S == e.ret
      end == W!AddC(S, R)
      legal == Aligned(S) /\ W!Le(e.cur, S) /\ end.c = 0 /\ W!Le(end.v, s.cur)
      ok == legal /\ e.s1 = W!Add(e.s0, R)
      \* pages the call may touch: the region on success, the space it reserved when it failed half-way
      Nw == IF ok THEN W!ShiftR(R, PB) ELSE W!ShiftR(W!Sub(s.cur, e.cur), PB)
      sk == IF ok THEN PKey(S) ELSE PKey(e.cur)
      ck == Keys(e.chg)
      inr == {i \in 1..Len(e.chg) : InRange(Key(e.chg[i]), sk, Nw)}
      stray == (1..Len(e.chg)) \ inr
      wrong == {i \in inr : ~(CFl(e.chg[i]) = FlRW /\ CF(e.chg[i]) # s.zero)}
      dirty == {i \in inr : Present(CFl(e.chg[i])) /\ CZ(e.chg[i]) # 1}
      frames == {CF(e.chg[i]) : i \in 1..Len(e.chg)}
      success == ok
      failure == W!IsZero(e.ret) /\ e.s1 = e.s0
      trivial == W!IsZero(S) /\ W!IsZero(R)
  IN IF noFit
     THEN [s |-> s, cs |-> NoCrash("R3", e) \o
            << <<"R3", e.res # "ok", <<"sysAlloc panicked", e.res>> >>,
               <<"R3", e.res = "ok" /\ ~failure, <<"a request that cannot be reserved must yield 0 and leave *stat alone", e.ret, e.s0, e.s1>> >> >> \o
            Quiet(s, e, "R3", "a sysAlloc whose reservation failed") \o Machine(s, e)]
     ELSE [s |-> Next(s, e), cs |-> NoCrash("R3", e) \o
            << <<"R3", e.res # "ok", <<"sysAlloc panicked", e.res>> >>,
               <<"R3", e.res = "ok" /\ ~success /\ ~failure,
                       <<"the result is neither (a page-aligned region inside the space the call reserved, *stat grown by the size rounded up) nor (0, *stat unchanged)",
                         e.ret, e.s0, e.s1, s.cur, e.cur>> >>,
               <<"R3", stray # {}, <<"sysAlloc changed a page outside its region", IF stray = {} THEN <<>> ELSE e.chg[Pick(stray)]>> >>,
               <<"R3", success /\ wrong # {}, <<"a page of the region is not mapped to a private frame with Present|NoExecute|RW",
                                     IF wrong = {} THEN <<>> ELSE e.chg[Pick(wrong)]>> >>,
               <<"R3", success /\ dirty # {}, <<"a page of the region does not read zero", IF dirty = {} THEN <<>> ELSE e.chg[Pick(dirty)]>> >>,
               <<"R3", e.res = "ok" /\ success /\ ~trivial /\ ~(W!FitsNat(Nw) /\ Cardinality(ck) = W!ToNat(Nw)),
                       "sysAlloc reports success but not every page of the region is mapped">>,
               <<"R3", e.res = "ok" /\ success /\ ~trivial /\ SetOf(e.nf) # frames \cup SetOf(e.tabs),
                       <<"frames were taken that are neither pages of the region nor page tables", e.nf>> >>,
               <<"R3", e.res = "ok" /\ failure /\ ~success /\ ~wrap /\ e.free # 0, "sysAlloc failed although space and frames are there">>,
               <<"R3", e.res = "ok" /\ failure /\ ~success /\ wrap /\ (e.cur # s.cur \/ e.chg # <<>> \/ e.nf # <<>>), "a refused sysAlloc changed the machine">>,
               <<"R3", e.res = "ok" /\ failure /\ ~success /\ Dev_AllocLeak /\ ~W!Le(e.cur, s.cur),
                       <<"a failed sysAlloc moved the cursor upwards", e.cur>> >>,
               <<"R3", e.res = "ok" /\ failure /\ ~success /\ ~Dev_AllocLeak /\ (e.cur # s.cur \/ e.chg # <<>> \/ e.nf # <<>>),
                       <<"a failed sysAlloc leaks: reservation, mapped pages or frames stay allocated", e.cur, Len(e.chg), e.nf>> >> >> \o Machine(s, e)]

(* R4 *)
MonStore(s, e) ==
  LET v == Lookup(s.map, e.p)
      lazy == Present(v[2]) /\ ~Writable(v[2]) /\ Cow(v[2])
      own == Present(v[2]) /\ Writable(v[2])
      c == IF Len(e.chg) >= 1 THEN e.chg[1] ELSE [i \in 1..(NLimbs + 3) |-> 0]
  IN IF own
     THEN [s |-> Next(s, e), cs |-> NoCrash("R4", e) \o
            << <<"R4", e.res # "ok" \/ e.nfl # 0, <<"a store to a private writable page faulted", e.res, e.nfl>> >> >> \o
            Quiet(s, e, "R4", "a store to a private page") \o Machine(s, e)]
     ELSE IF lazy /\ s.free > 0
     THEN [s |-> Next(s, e), cs |-> NoCrash("R4", e) \o
            << <<"R4", e.res # "ok", <<"the write fault on a lazily allocated page did not resume", e.res>> >>,
               <<"R4", e.res = "ok" /\ e.nfl # 1, <<"the store needed other than exactly one fault", e.nfl>> >>,
               <<"R4", e.res = "ok" /\ ~(Len(e.chg) = 1 /\ Key(e.chg[1]) = e.p), <<"the fault changed other pages / not the faulting page", e.chg>> >>,
               <<"R4", e.res = "ok" /\ Len(e.chg) = 1 /\ ~(Present(CFl(c)) /\ Writable(CFl(c)) /\ CF(c) # s.zero),
                       <<"the page did not get a private writable frame", c>> >>,
               <<"R4", e.res = "ok" /\ e.hz # 1, "the private frame was not zero-filled when the handler returned">>,
               <<"R4", e.res = "ok" /\ Len(e.chg) = 1 /\ SetOf(e.nf) # {CF(c)} \cup SetOf(e.tabs), <<"the fault took other frames than the private copy", e.nf>> >>,
               <<"R4", e.cur # s.cur, "the fault moved the reservation cursor">> >> \o Machine(s, e)]
     ELSE [s |-> [s EXCEPT !.ph = "dead"], cs |->
            << <<"R4", e.res = "ok", <<"a fault that cannot be served resumed", v, s.free>> >> >> \o
            Quiet(s, e, "R4", "an unrecoverable fault") \o Machine(s, e)]

(* R5 *)
MonRnd(s, e) ==
  [s |-> Next(s, e), cs |-> NoCrash("R5", e) \o
     (IF e.res # "ok" THEN <<>> ELSE
     << <<"R5", Len(e.a) # e.n \/ Len(e.b) # e.m \/ Len(e.c) # e.n + e.m, "lengths">>,
        <<"R5", e.c # e.a \o e.b, <<"n bytes then m bytes differ from n+m bytes at once (not deterministic / stream does not continue / a byte not filled)",
                                    e.a, e.b, e.c>> >>,
        <<"R5", e.t1 # 1 \/ e.t2 # 1, "bytes behind the slice were written">>,
        <<"R5", e.sa # e.sc, <<"the generator state differs after n+m bytes", e.sa, e.sc>> >> >>) \o
     Quiet(s, e, "R5", "getRandomData") \o Machine(s, e)]

MonNano(s, e) ==
  [s |-> Next(s, e), cs |-> NoCrash("R5", e) \o
     << <<"R5", \E i \in 1..Len(e.v) : e.v[i] # Wn(1), <<"nanotime is not the constant 1", e.v>> >>,
        <<"R5", \E i \in 1..(Len(e.v) - 1) : W!Lt(e.v[i + 1], e.v[i]), "nanotime went backwards">> >> \o
     Quiet(s, e, "R5", "nanotime") \o Machine(s, e)]

InitCalls == <<"mallocInit", "algInit", "modulesInit", "typeLinksInit", "itabsInit", "procResize:1", "initGoPackages">>
MonInit(s, e) ==
  [s |-> Next(s, e), cs |-> NoCrash("R5", e) \o
     << <<"R5", e.calls # InitCalls, <<"Init does not make the runtime calls once each in order", e.calls>> >>,
        <<"R5", e.ret # "nil", <<"Init returned an error", e.ret>> >> >> \o
     Quiet(s, e, "R5", "Init") \o Machine(s, e)]

MonCpu(s, e) ==
  [s |-> Next(s, e), cs |-> NoCrash("R5", e) \o
     << <<"R5", e.calls # <<"procResize:" \o e.n>>, <<"SetCPUCount does not pass the count to procResize once", e.n, e.calls>> >> >> \o
     Quiet(s, e, "R5", "SetCPUCount") \o Machine(s, e)]

MonPkgInit(s, e) ==
  [s |-> Next(s, e), cs |->
     << <<"R5", e.igp # 1, "the initGoPackagesFn seam is not bound to main.init">> >> \o
     Quiet(s, e, "R5", "the package's init()") \o Machine(s, e)]

MonHold(s, e) ==
  [s |-> Next(s, e), cs |->
     << <<"R6", e.chg # <<>> \/ e.cur # s.cur, "taking frames changed mappings / the cursor">> >> \o Machine(s, e)]

MonBoot(s, e) ==
  IF e.res # "ok" THEN [s |-> [S0 EXCEPT !.ph = "dead"], cs |-> <<>>]
  ELSE [s |-> [S0 EXCEPT !.ph = "up", !.cur = e.cur, !.zero = e.zero, !.free = e.free],
        cs |-> << <<"R6", e.zf # 1, "the zero frame is not zero-filled after the boot">> >>]

Mon(s, e) ==
  IF e.k = "reset" THEN [s |-> S0, cs |-> <<>>]
  ELSE IF e.k = "boot" THEN MonBoot(s, e)
  ELSE IF s.ph # "up" THEN [s |-> s, cs |-> <<>>]
  ELSE IF e.k = "rsv" THEN MonRsv(s, e)
  ELSE IF e.k = "map" THEN MonMap(s, e)
  ELSE IF e.k = "alloc" THEN MonAlloc(s, e)
  ELSE IF e.k = "store" THEN MonStore(s, e)
  ELSE IF e.k = "hold" THEN MonHold(s, e)
  ELSE IF e.k = "rnd" THEN MonRnd(s, e)
  ELSE IF e.k = "nano" THEN MonNano(s, e)
  ELSE IF e.k = "init" THEN MonInit(s, e)
  ELSE IF e.k = "cpu" THEN MonCpu(s, e)
  ELSE IF e.k = "pkginit" THEN MonPkgInit(s, e)
  ELSE [s |-> s, cs |-> << <<"R6", TRUE, <<"unknown event", e.k>> >> >>]

AllProps == {"R1", "R2", "R3", "R4", "R5", "R6"}
====
