CONSTANTS DevWrapZero = TRUE  DevMapStartUp = FALSE  DevAllocLeak = TRUE
INIT Init
NEXT Next
POSTCONDITION Accepted
CHECK_DEADLOCK FALSE
