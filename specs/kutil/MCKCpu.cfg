CONSTANTS Bug = ""  Emit = TRUE
CONSTANT Words <- MCWords
INIT Init
NEXT Next
INVARIANT NoMismatch
INVARIANT EmitCase
CHECK_DEADLOCK FALSE
