---- MODULE MCKCpu ----
EXTENDS KCpuModel
\* "Genu" "ineI" "ntel", one byte of each changed, AMD's "Auth" "enti" "cAMD", zero
MCWords == {Genu, IneI, Ntel, <<71, 101, 110, 116>>, <<105, 110, 101, 105>>, <<110, 116, 101, 76>>,
            <<65, 117, 116, 104>>, <<101, 110, 116, 105>>, <<99, 65, 77, 68>>, <<0, 0, 0, 0>>}
====
