---- MODULE KMemModel ----
(***************************************************************************)
(* extra-kutil (c) - design model of mem_util.go as coded over a memory of   *)
(* N cells: Memset stores the first byte and doubles the filled prefix with  *)
(* copy(target[index:], target[:index]) until index >= size (the last copy   *)
(* is cut by the slice length); Memcopy is one built-in copy (memmove).      *)
(* Each call builds the event the harness would log and KMem!KMMon judges    *)
(* it.  The branches (size 0; size 1 = no copy; only full doublings = power  *)
(* of two; a cut last copy; overlapping copy in both directions) are all     *)
(* reached in the scope - checked with -coverage.                            *)
(* Design mutants: NoTail (loop stops when the next doubling does not fit),  *)
(* LenPlusOne (slice one byte too long), ForwardCopy (byte loop from the     *)
(* low end: wrong for dst > src overlap), SwapArgs, ZeroTouches (size 0      *)
(* still writes the first byte).                                            *)
(***************************************************************************)
EXTENDS Integers, Sequences, FiniteSets, TLC, Json, CSV, IOUtils, TraceLib
CONSTANTS N, Vals, Bug, Emit
KM == INSTANCE KMem
S == INSTANCE KuSeg

\* sanity of the segment algebra the monitors rest on (evaluated once at start-up)
ASSUME /\ S!Same(<<<<3, 5000, 1>>, <<7, 3000, 0>>, <<3, 5000, 1>>>>, <<<<3, 2000, 1>>, <<(3 + 2000) % 251, 3000, 1>>, <<7, 3000, 0>>, <<3, 5000, 1>>>>)
       /\ ~S!Same(<<<<3, 5000, 1>>, <<7, 3000, 0>>>>, <<<<3, 2000, 1>>, <<(3 + 2001) % 251, 3000, 1>>, <<7, 3000, 0>>>>)
       /\ ~S!Same(<<<<3, 5000, 1>>>>, <<<<3, 4999, 1>>>>)
       /\ ~S!Same(<<<<7, 3000, 0>>>>, <<<<7, 2999, 0>>, <<8, 1, 0>>>>)
       /\ S!Same(<<<<250, 2, 1>>, <<1, 1, 0>>>>, <<<<250, 1, 0>>, <<0, 2, 1>>>>)
       /\ ~S!Same(<<<<5, 10, 0>>>>, <<<<5, 10, 1>>>>)
       /\ S!Take(<<<<9, 4, 1>>, <<1, 3, 0>>>>, 5) = <<<<9, 4, 1>>, <<1, 1, 0>>>>
       /\ S!Drop(<<<<9, 4, 1>>, <<1, 3, 0>>>>, 2) = <<<<11, 2, 1>>, <<1, 3, 0>>>>
       /\ S!Bytes(<<<<249, 4, 1>>, <<255, 2, 0>>>>) = <<249, 250, 0, 1, 255, 255>>
       /\ S!Total(<<<<1, 2, 0>>, <<3, 0, 0>>, <<4, 5, 1>>>>) = 7

VARIABLES mem, done, last, mismatch
vars == <<mem, done, last, mismatch>>
Pattern == [i \in 0..(N - 1) |-> 100 + i]              \* every cell distinct and different from Vals
Init == mem = Pattern /\ done = FALSE /\ last = <<>> /\ mismatch = <<>>
Min(a, b) == IF a < b THEN a ELSE b
Segs(m) == S!Lits([i \in 1..N |-> m[i - 1]])

\* built-in copy(dst[d..d+n), src[s..s+n)) with memmove semantics
Move(m, d, s, n) == [i \in 0..(N - 1) |-> IF i >= d /\ i < d + n THEN m[s + (i - d)] ELSE m[i]]
\* a byte loop from the low end
RECURSIVE Fwd(_, _, _, _)
Fwd(m, d, s, n) == IF n = 0 THEN m ELSE Fwd([m EXCEPT ![d] = m[s]], d + 1, s + 1, n - 1)

RECURSIVE Doubling(_, _, _, _)
Doubling(m, off, len, index) ==                        \* len = length of the overlaid slice
  IF (IF Bug = "NoTail" THEN index * 2 > len ELSE index >= len) THEN m
  ELSE Doubling(Move(m, off + index, off, Min(len - index, index)), off, len, index * 2)
MemsetImpl(m, off, val, size) ==
  IF size = 0 THEN (IF Bug = "ZeroTouches" THEN [m EXCEPT ![off] = val] ELSE m)
  ELSE Doubling([m EXCEPT ![off] = val], off, IF Bug = "LenPlusOne" THEN size + 1 ELSE size, 1)
MemcopyImpl(m, src, dst, size) ==
  IF size = 0 THEN m
  ELSE IF Bug = "SwapArgs" THEN Move(m, src, dst, size)
  ELSE IF Bug = "ForwardCopy" THEN Fwd(m, dst, src, size)
  ELSE Move(m, dst, src, size)

\* the mutants may run off the modelled memory; keep one spare cell behind every range
Memset(off, val, size) ==
  /\ off + size + 1 <= N
  /\ LET m2 == MemsetImpl(mem, off, val, size)
         e == [k |-> "memset", off |-> off, val |-> val, size |-> size, pre |-> Segs(mem), post |-> Segs(m2), res |-> "ok"]
     IN mem' = m2 /\ mismatch' = FirstFailIn({"KM"}, 1, KM!KMMon(e))
  /\ done' = TRUE /\ last' = <<"memset", off, size, val>>
Memcopy(src, dst, size) ==
  /\ src + size <= N /\ dst + size <= N
  /\ LET m2 == MemcopyImpl(mem, src, dst, size)
         e == [k |-> "memcopy", src |-> src, dst |-> dst, size |-> size, pre |-> Segs(mem), post |-> Segs(m2), res |-> "ok"]
     IN mem' = m2 /\ mismatch' = FirstFailIn({"KM"}, 1, KM!KMMon(e))
  /\ done' = TRUE /\ last' = <<"memcopy", src, dst, size>>

Next == /\ ~done
        /\ \/ \E off \in 0..(N - 1), size \in 0..N, v \in Vals : Memset(off, v, size)
           \/ \E src \in 0..(N - 1), dst \in 0..(N - 1), size \in 0..N : Memcopy(src, dst, size)
NoMismatch == mismatch = <<>>
\* leg G: every call of the scope is a case (offsets and sizes are scaled by the runner)
EmitCase == (Emit /\ done /\ mismatch = <<>>) =>
              CSVWrite("%1$s", <<ToJson(IF last[1] = "memset" THEN [op |-> "memset", off |-> last[2], size |-> last[3], val |-> last[4]]
                                       ELSE [op |-> "memcopy", src |-> last[2], dst |-> last[3], size |-> last[4]])>>, IOEnv.CASES)
====
