CONSTANTS MaxOps = 3  Bug = ""  Emit = TRUE
CONSTANTS Mods <- MCMods1  Msgs <- MCMsgs2
INIT Init
NEXT Next
INVARIANT NoMismatch
INVARIANT StateOk
INVARIANT EmitCase
CHECK_DEADLOCK FALSE
