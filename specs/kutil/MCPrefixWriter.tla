---- MODULE MCPrefixWriter ----
EXTENDS PrefixWriterModel
CONSTANT MaxLen, MaxFail
\* every chunk over {'a', '\n'} up to MaxLen bytes
MCChunks == UNION {[1..n -> {97, 10}] : n \in 0..MaxLen}
MCPrefixes == {<<>>, <<62>>, <<35, 10>>}
MCFailAts == -1..MaxFail
MCModes == {<<0, FALSE>>, <<0, TRUE>>, <<1, FALSE>>, <<3, FALSE>>}
====
