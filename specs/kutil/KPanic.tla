---- MODULE KPanic ----
(***************************************************************************)
(* extra-kutil (b) - kfmt.Panic, property level.                             *)
(*                                                                          *)
(* STATEMENTS                                                               *)
(* KP1  Panic(e) writes to the kernel's output sink exactly                  *)
(*        "\n" Rule "\n" [ "[" Module "] unrecoverable error: " Message "\n" ] Banner "\n" Rule "\n"   *)
(*      (Rule = 35 dashes, Banner = "*** kernel panic: system halted ***"). *)
(*      The bracketed line is present exactly when e carries an error: a     *)
(*      non-nil *kernel.Error (its Module and Message), any other error      *)
(*      (module "rt", message e.Error()) or a string (module "rt", the       *)
(*      string); it is absent for nil and for a nil *kernel.Error.  The      *)
(*      message is printed verbatim (no format expansion), exactly once.     *)
(* KP2  After the output is complete Panic halts the CPU exactly once,       *)
(*      prints nothing afterwards, and never turns a halt that does not      *)
(*      return into a normal return (it does not recover).                   *)
(* Deviations of the code from its doc comment, modelled and named:          *)
(*   Dev_OtherKindsSilent   a value that is neither error nor string (e.g.   *)
(*                          panic(42) arriving through the runtime.gopanic   *)
(*                          redirect) prints the frame without any message;  *)
(*   Dev_SharedRuntimeError strings and foreign errors are reported through  *)
(*                          the one shared errRuntimePanic whose Message is  *)
(*                          overwritten and stays so (Panic(errRuntimePanic) *)
(*                          afterwards prints the last such message).        *)
(***************************************************************************)
EXTENDS Integers, Sequences, TLC
S == INSTANCE KuSeg

Dev_OtherKindsSilent == TRUE
Dev_SharedRuntimeError == TRUE

Rule == S!Rep(45, 35)
NLs == S!Rep(10, 1)
Banner == S!Lits(<<42, 42, 42, 32, 107, 101, 114, 110, 101, 108, 32, 112, 97, 110, 105, 99, 58, 32, 115, 121, 115, 116, 101,
                   109, 32, 104, 97, 108, 116, 101, 100, 32, 42, 42, 42>>)
Unrec == S!Lits(<<93, 32, 117, 110, 114, 101, 99, 111, 118, 101, 114, 97, 98, 108, 101, 32, 101, 114, 114, 111, 114, 58, 32>>)  \* "] unrecoverable error: "
RtModule == S!Lits(<<114, 116>>)                                                                                               \* "rt"

Kinds == {"kerr", "kerrnil", "err", "str", "nil", "other", "rtself"}
\* what is reported: <<has, module, message>>
Reported(kind, mod, msg, rt) ==
  CASE kind = "kerr" -> <<TRUE, mod, msg>>
    [] kind \in {"err", "str"} -> <<TRUE, RtModule, msg>>
    [] kind = "rtself" -> <<TRUE, RtModule, rt>>
    [] OTHER -> <<FALSE, <<>>, <<>> >>                    \* nil, nil *kernel.Error, Dev_OtherKindsSilent
ErrLine(mod, msg) == S!Rep(91, 1) \o mod \o Unrec \o msg \o NLs
Frame(r) == NLs \o Rule \o NLs \o (IF r[1] THEN ErrLine(r[2], r[3]) ELSE <<>>) \o Banner \o NLs \o Rule \o NLs
\* Dev_SharedRuntimeError: the stored runtime message after the call
NextRt(kind, msg, rt) == IF kind \in {"err", "str"} THEN msg ELSE rt

(* the monitor.  State: the message stored in the shared runtime error (segments).  Events:              *)
(*  [k |-> "pcase", rt]                          stored message at the start of a case (environment)      *)
(*  [k |-> "panic", kind, mod, msg, hmode, res, out, halts, before]                                       *)
(*     hmode "ret": the halt seam returns; "unwind": it does not (it unwinds with a sentinel the harness  *)
(*     catches); res "returned" / "unwound" / "panicked" (some other Go panic); out = everything printed; *)
(*     before = bytes printed before the first halt (= all of them when there was none)                   *)
KPInit == <<>>
KPMon(rt, e) ==
  IF e.k = "pcase" THEN [st |-> e.rt, cs |-> <<>>]
  ELSE LET want == Frame(Reported(e.kind, e.mod, e.msg, rt)) IN
       [st |-> NextRt(e.kind, e.msg, rt),
        cs |-> << <<"KP", e.res = "panicked", <<"Panic raised a Go panic of its own for", e.kind>> >>,
                  <<"KP", ~S!Same(e.out, want), <<"Panic must print", want, "printed", e.out, "for", e.kind, e.mod, e.msg>> >>,
                  <<"KP", e.halts # 1, <<"the CPU must be halted exactly once, halt calls:", e.halts, "for", e.kind>> >>,
                  <<"KP", e.halts >= 1 /\ e.before # S!Total(e.out),
                     <<"output continues after the halt: bytes before / total", e.before, S!Total(e.out)>> >>,
                  <<"KP", e.halts >= 1 /\ e.before # S!Total(want), <<"the CPU was halted before the report was complete: bytes before the halt", e.before>> >>,
                  <<"KP", e.hmode = "ret" /\ e.res = "unwound", <<"harness: unwound without an unwinding halt">> >>,
                  <<"KP", e.hmode = "unwind" /\ e.res = "returned" /\ e.halts >= 1,
                     <<"a halt that never returns was turned into a normal return">> >> >>]
====
