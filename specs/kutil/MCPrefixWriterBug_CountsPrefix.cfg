CONSTANTS MaxLen = 2  MaxFail = 8  MaxOps = 3  Bug = "CountsPrefix"  Emit = FALSE
CONSTANTS Chunks <- MCChunks  Prefixes <- MCPrefixes  FailAts <- MCFailAts  Modes <- MCModes
INIT Init
NEXT Next
INVARIANT NoMismatch
INVARIANT LazyOk
INVARIANT AsCoded
INVARIANT StateOk
INVARIANT EmitCase
CHECK_DEADLOCK FALSE
