---- MODULE KutilTrace ----
(***************************************************************************)
(* extra-kutil - trace monitor.  Events recorded from the real kfmt, kernel, *)
(* gate and cpu packages are judged by the same operators that judge the     *)
(* design models: PrefixWriter!PWMon, KPanic!KPMon, KMem!KMMon, KGate!KGMon, *)
(* KGate!KCMon.  One event per step; the first event the specification does  *)
(* not allow is reported and stops the run.                                  *)
(*   "pwcase" "w"        PrefixWriter          "pcase" "panic"   Panic       *)
(*   "memset" "memcopy"  Memset / Memcopy      "greset" "reg"    gate        *)
(*   "intel"             IsIntel               "reset"           case end    *)
(*   "crash"  the harness process died inside the call named by the event    *)
(***************************************************************************)
EXTENDS Integers, Sequences, FiniteSets, TLC, Json, IOUtils, TraceLib
PW == INSTANCE PrefixWriter
KP == INSTANCE KPanic
KM == INSTANCE KMem
KG == INSTANCE KGate
Trace == ndJsonDeserialize(IOEnv.TRACE)
Props == {"PW", "KP", "KM", "KG", "KC", "crash"}

VARIABLES l, pw, rt, gt, mismatch
vars == <<l, pw, rt, gt, mismatch>>

Init == l = 1 /\ pw = PW!PWInit /\ rt = KP!KPInit /\ gt = KG!GEmpty /\ mismatch = <<>>
Next ==
  /\ l <= Len(Trace) /\ mismatch = <<>>
  /\ l' = l + 1
  /\ LET e == Trace[l] IN
     CASE e.k \in {"pwcase", "w"} ->
            LET m == PW!PWMon(pw, e) IN pw' = m.st /\ mismatch' = FirstFailIn(Props, l, m.cs) /\ UNCHANGED <<rt, gt>>
       [] e.k \in {"pcase", "panic"} ->
            LET m == KP!KPMon(rt, e) IN rt' = m.st /\ mismatch' = FirstFailIn(Props, l, m.cs) /\ UNCHANGED <<pw, gt>>
       [] e.k \in {"memset", "memcopy"} -> mismatch' = FirstFailIn(Props, l, KM!KMMon(e)) /\ UNCHANGED <<pw, rt, gt>>
       [] e.k \in {"greset", "reg"} ->
            LET m == KG!KGMon(gt, e) IN gt' = m.st /\ mismatch' = FirstFailIn(Props, l, m.cs) /\ UNCHANGED <<pw, rt>>
       [] e.k = "intel" -> mismatch' = FirstFailIn(Props, l, KG!KCMon(e)) /\ UNCHANGED <<pw, rt, gt>>
       [] e.k = "crash" -> mismatch' = <<l, "crash", <<"the process running the real code died inside this call", e.what>> >> /\ UNCHANGED <<pw, rt, gt>>
       [] OTHER -> UNCHANGED <<pw, rt, gt, mismatch>>
  /\ Report(mismatch')
NoMismatch == mismatch = <<>>
Accepted == TLCGet("stats").diameter - 1 = Len(Trace)
====
