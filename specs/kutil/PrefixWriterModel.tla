---- MODULE PrefixWriterModel ----
(***************************************************************************)
(* extra-kutil (a) - design model of kfmt.PrefixWriter.Write as coded        *)
(* (prefix_writer.go): bytesAfterPrefix, the byte loop with startIndex /     *)
(* curIndex, one sink call per '\n'-terminated piece, the eager prefix.      *)
(* Every Write builds the event the harness would log and PrefixWriter!PWMon *)
(* - the operator that judges traces of the real writer - judges it          *)
(* (NoMismatch).  Refinement level: AsCoded states that the byte loop is the *)
(* piece rule PWrite, LazyOk that PWrite is the lazily prefixed stream       *)
(* whenever the sink does not fail transiently.                              *)
(* Design mutants (Bug): PrefixEveryWrite, EagerAtChunkEnd, CountsPrefix,    *)
(* EmptyWritePrefix, SwallowPartialError, CountsWholePiece violate the       *)
(* property (NoMismatch); BapFromLen, ErrBeforePrefix only leave the coded   *)
(* rule (AsCoded) - the property does not pin those choices.                 *)
(***************************************************************************)
EXTENDS Integers, Sequences, FiniteSets, TLC, Json, CSV, IOUtils, TraceLib
CONSTANTS Chunks,      \* byte sequences a Write may carry
          Prefixes,    \* byte sequences
          FailAts,     \* sink budgets (-1 = the sink never fails)
          Modes,       \* <<period, sticky>> for failing sinks
          MaxOps, Bug, Emit

PW == INSTANCE PrefixWriter
S == INSTANCE KuSeg
NL == 10

VARIABLES prefix, sk, bap,       \* the writer and its sink
          sinkcfg,               \* <<failAt, period, sticky>> the sink was created with
          st,                    \* monitor state
          nops, script, lazyok, ascoded, mismatch
vars == <<prefix, sk, bap, sinkcfg, st, nops, script, lazyok, ascoded, mismatch>>

Init == /\ prefix \in Prefixes
        /\ \E f \in FailAts : \E m \in (IF f < 0 THEN {<<0, FALSE>>} ELSE Modes) :
              sk = PW!NewSink(f, m[1], m[2]) /\ sinkcfg = <<f, m[1], m[2]>>
        /\ bap = 0 /\ nops = 0 /\ script = <<>> /\ lazyok = TRUE /\ ascoded = TRUE /\ mismatch = <<>>
        /\ st = [prefix |-> S!Lits(prefix), atStart |-> TRUE, acc |-> 0, failAt |-> sinkcfg[1], failed |-> FALSE]

\* Sink.Write(b): [n, err, sk, got]
SinkW(s, b) == LET r == PW!SinkWrite(s, Len(b)) IN [n |-> r.n, err |-> r.err, sk |-> r.sk, got |-> SubSeq(b, 1, r.n)]

\* run state: [sk, got, written, bap, err, serr (sink errors seen)]
E(r) == IF r.err THEN 1 ELSE 0
PrefixW(w) == LET r == SinkW(w.sk, prefix) IN
              [w EXCEPT !.sk = r.sk, !.got = @ \o r.got, !.written = IF Bug = "CountsPrefix" THEN @ + r.n ELSE @, !.serr = @ + E(r)]
RECURSIVE Loop(_, _, _, _)
Loop(w, p, start, cur) ==                                  \* 0-based indices as in the code
  IF cur >= Len(p)
  THEN IF start < cur
       THEN LET r == SinkW(w.sk, SubSeq(p, start + 1, cur)) IN
            [w EXCEPT !.sk = r.sk, !.got = @ \o r.got, !.written = @ + (IF Bug = "CountsWholePiece" THEN cur - start ELSE r.n),
                      !.bap = IF Bug = "BapFromLen" THEN cur - start ELSE r.n, !.serr = @ + E(r),
                      !.err = r.err /\ ~(Bug = "SwallowPartialError" /\ r.n > 0)]
       ELSE w
  ELSE IF p[cur + 1] = NL
  THEN LET r == SinkW(w.sk, SubSeq(p, start + 1, cur + 1))
           a == [w EXCEPT !.sk = r.sk, !.got = @ \o r.got, !.serr = @ + E(r)]
           b == IF (cur + 1 # Len(p) \/ Bug = "EagerAtChunkEnd") /\ ~(Bug = "ErrBeforePrefix" /\ r.err) THEN PrefixW(a) ELSE a
           c == [b EXCEPT !.written = @ + (IF Bug = "CountsWholePiece" THEN cur + 1 - start ELSE r.n)]
       IN IF r.err THEN [c EXCEPT !.err = TRUE]
          ELSE Loop([c EXCEPT !.bap = 0], p, cur + 1, cur + 1)
  ELSE Loop(w, p, start, cur + 1)

WriteImpl(p) ==
  LET w0 == [sk |-> sk, got |-> <<>>, written |-> 0, bap |-> bap, err |-> FALSE, serr |-> 0]
      first == CASE Bug = "PrefixEveryWrite" -> Len(p) # 0
                 [] Bug = "EmptyWritePrefix" -> bap = 0
                 [] OTHER -> bap = 0 /\ Len(p) # 0
      w1 == IF first THEN PrefixW(w0) ELSE w0
  IN Loop(w1, p, 0, 0)

Write(p) ==
  /\ nops < MaxOps
  /\ LET x == WriteImpl(p)
         e == [k |-> "w", p |-> S!Lits(p), res |-> "ok", n |-> x.written, err |-> IF x.err THEN "sink" ELSE "nil",
               got |-> S!CanonRuns(S!Lits(x.got)), serr |-> x.serr, pmod |-> FALSE]
         pp == S!Lits(prefix)
         r == PW!PWrite(pp, bap # 0, sk, S!Lits(p))
         m == PW!PWMon(st, e)
     IN /\ sk' = x.sk /\ bap' = x.bap
        /\ st' = m.st /\ mismatch' = FirstFailIn({"PW"}, nops + 1, m.cs)
        /\ lazyok' = PW!AgreesWithLazy(pp, bap # 0, sk, S!Lits(p))
        /\ ascoded' = (S!Same(r.out, S!Lits(x.got)) /\ r.written = x.written /\ r.err = x.err /\ r.mid = (x.bap # 0) /\ r.sk = x.sk)
  /\ nops' = nops + 1 /\ script' = Append(script, p) /\ UNCHANGED <<prefix, sinkcfg>>

Next == mismatch = <<>> /\ \E p \in Chunks : Write(p)

NoMismatch == mismatch = <<>>
LazyOk == lazyok
AsCoded == ascoded
\* the monitor's idea of the sink is the sink
StateOk == mismatch = <<>> => st.acc = sk.acc
\* leg G: every maximal behaviour becomes a case for the Go harness
EmitCase == (Emit /\ nops = MaxOps /\ mismatch = <<>>) =>
              CSVWrite("%1$s", <<ToJson([prefix |-> prefix, failAt |-> sinkcfg[1], period |-> sinkcfg[2], sticky |-> sinkcfg[3], chunks |-> script])>>, IOEnv.CASES)
====
