CONSTANTS MaxLen = 2  MaxFail = 12  MaxOps = 3  Bug = ""  Emit = TRUE
CONSTANTS Chunks <- MCChunks  Prefixes <- MCPrefixes  FailAts <- MCFailAts  Modes <- MCModes
INIT Init
NEXT Next
INVARIANT NoMismatch
INVARIANT LazyOk
INVARIANT AsCoded
INVARIANT StateOk
INVARIANT EmitCase
CHECK_DEADLOCK FALSE
