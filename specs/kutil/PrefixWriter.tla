---- MODULE PrefixWriter ----
(***************************************************************************)
(* extra-kutil (a) - kfmt.PrefixWriter, property level.                      *)
(*                                                                          *)
(* STATEMENTS                                                               *)
(* PW1  As long as the sink has accepted every byte offered to it, then for  *)
(*      every way of cutting the input into Write calls the sink receives    *)
(*      the input with Prefix inserted immediately before the first byte of  *)
(*      every line.  A line starts at the first byte ever written and at     *)
(*      every byte that follows a '\n'; the prefix is inserted *lazily*: a   *)
(*      '\n' that is the last byte written so far has no prefix after it     *)
(*      until another byte is written.  Every such Write returns             *)
(*      (len(p), nil) - the prefix bytes are not counted - and an empty      *)
(*      Write reaches the sink not at all.  Write never modifies p / Prefix. *)
(* PW2  The first Write during which the sink reports an error (it had k     *)
(*      bytes of budget left): the sink has received at least k bytes in     *)
(*      that call and the first k are exactly the first k bytes of the       *)
(*      stream PW1 prescribes for p; whatever it received beyond them is a   *)
(*      subsequence of the rest of that stream (nothing invented, nothing    *)
(*      reordered).  Write returns n <= len(p) with a non-nil error whenever *)
(*      n < len(p) (io.Writer); n does not exceed the bytes of p among those *)
(*      first k bytes plus the bytes received beyond them; if it returns nil *)
(*      every byte of p reached the sink, in order.  Whether the writer      *)
(*      offered a prefix before or after the refused piece, whether a failed *)
(*      prefix write is reported, and how much less than the maximum it      *)
(*      reports are NOT constrained.                                        *)
(* PW3  After the first sink error of a writer's life only io.Writer's       *)
(*      contract is demanded of later Writes (0 <= n <= len(p), an error     *)
(*      whenever n < len(p), n not above what the sink took in the call, no  *)
(*      panic, p untouched): the documentation says nothing about the line   *)
(*      state after an error and the code's choice is not pinned.            *)
(*                                                                          *)
(* REFINEMENT (leg M and case generation only, never a verdict about code):  *)
(* PWrite is Write *as coded* under transient sink errors: prefix (at a line *)
(* start, p not empty), then each maximal piece of p that ends with '\n' or  *)
(* with p, each '\n'-piece before the end of p followed by the prefix; the   *)
(* first refused piece ends the call.  Three choices of the code that a      *)
(* natural reading of the doc comment / io.Writer would not make are named:  *)
(*   Dev_PrefixErrIgnored      the result of a prefix write is dropped:      *)
(*                             Write can return (len(p), nil) although       *)
(*                             prefix bytes never reached the sink;          *)
(*   Dev_PrefixBeforeErrCheck  when a '\n'-piece inside the chunk is         *)
(*                             refused, the next line's prefix is still      *)
(*                             handed to the sink before Write returns;      *)
(*   Dev_LineStateFromCount    the line-start flag is "the sink took 0       *)
(*                             bytes of the last unterminated piece" and is  *)
(*                             untouched by a refused '\n'-piece: after an   *)
(*                             error the next Write may repeat the prefix in *)
(*                             mid-line.                                     *)
(* The design model checks that its byte loop equals PWrite (AsCoded), that  *)
(* PWrite equals the lazy stream whenever the sink does not fail             *)
(* transiently (LazyOk), and that it satisfies the monitor (NoMismatch).     *)
(*                                                                          *)
(* Byte strings are KuSeg segment lists; chunks and prefixes are runs.       *)
(* The sink is the environment: a byte budget `failAt` (bytes accepted       *)
(* before the call that crosses it is cut short and answered with an error), *)
(* then dead for good (sticky), or armed again `period` bytes later, or not  *)
(* at all.                                                                  *)
(***************************************************************************)
EXTENDS Integers, Sequences, TLC
S == INSTANCE KuSeg
NL == 10

Dev_PrefixErrIgnored == TRUE
Dev_PrefixBeforeErrCheck == TRUE
Dev_LineStateFromCount == TRUE

--------------------------------------------------------------------------
(* the sink: [acc, failAt (-1 = never), period (0 = once), sticky, dead] *)
NewSink(failAt, period, sticky) == [acc |-> 0, failAt |-> failAt, period |-> period, sticky |-> sticky, dead |-> FALSE]
Transient(sk) == sk.failAt >= 0 /\ ~sk.sticky
SinkWrite(sk, n) ==
  IF sk.dead THEN [n |-> 0, err |-> TRUE, sk |-> sk]
  ELSE IF sk.failAt >= 0 /\ sk.acc + n > sk.failAt
  THEN [n |-> sk.failAt - sk.acc, err |-> TRUE,
        sk |-> [sk EXCEPT !.acc = sk.failAt, !.dead = sk.sticky,
                          !.failAt = IF sk.sticky THEN sk.failAt ELSE IF sk.period > 0 THEN sk.failAt + sk.period ELSE -1]]
  ELSE [n |-> n, err |-> FALSE, sk |-> [sk EXCEPT !.acc = @ + n]]

--------------------------------------------------------------------------
(* PW3: the rule as coded.  Walk state: sink, bytes the sink accepted in this call, count, flag, stop/err *)
Put(w, q) == LET r == SinkWrite(w.sk, S!Total(q)) IN
             [w EXCEPT !.sk = r.sk, !.out = @ \o S!Take(q, r.n), !.n = r.n, !.e = r.err]
PrefixPut(w, prefix) ==
  LET a == Put(w, prefix) IN
  IF a.e /\ ~Dev_PrefixErrIgnored THEN [a EXCEPT !.stop = TRUE, !.err = TRUE] ELSE a

\* a piece that ends with '\n'; last = it also ends the chunk
NlPiece(w, prefix, piece, last) ==
  LET a == Put(w, piece)
      n == a.n  fail == a.e
      b == IF ~last /\ (Dev_PrefixBeforeErrCheck \/ ~fail) THEN PrefixPut(a, prefix) ELSE a
      c == [b EXCEPT !.written = @ + n]
  IN IF fail THEN [c EXCEPT !.stop = TRUE, !.err = TRUE, !.mid = w.mid]      \* Dev_LineStateFromCount: flag untouched
     ELSE IF c.stop THEN c
     ELSE [c EXCEPT !.mid = FALSE]
\* the unterminated rest of the chunk
RestPiece(w, piece) ==
  LET a == Put(w, piece) IN
  [a EXCEPT !.written = @ + a.n, !.mid = (a.n # 0),                            \* Dev_LineStateFromCount: flag = count # 0
            !.stop = a.e, !.err = a.e]

RECURSIVE Walk(_, _, _, _, _)
Walk(w, prefix, rest, cur, left) ==          \* rest: runs still to scan, cur: the piece collected so far, left = Total(rest)
  IF w.stop THEN w
  ELSE IF rest = <<>> THEN (IF cur = <<>> THEN w ELSE RestPiece(w, cur))
  ELSE LET r == rest[1] IN
       IF r[2] <= 0 THEN Walk(w, prefix, Tail(rest), cur, left)
       ELSE IF r[1] # NL THEN Walk(w, prefix, Tail(rest), cur \o <<r>>, left - r[2])
       ELSE Walk(NlPiece(w, prefix, cur \o << <<NL, 1, 0>> >>, left = 1), prefix,
                 IF r[2] = 1 THEN Tail(rest) ELSE << <<NL, r[2] - 1, 0>> >> \o Tail(rest), <<>>, left - 1)

\* one Write call: [sk, out, written, mid, err]
PWrite(prefix, mid, sk, p) ==
  LET len == S!Total(p)
      w0 == [sk |-> sk, out |-> <<>>, n |-> 0, e |-> FALSE, written |-> 0, mid |-> mid, stop |-> FALSE, err |-> FALSE]
      w1 == IF ~mid /\ len # 0 THEN PrefixPut(w0, prefix) ELSE w0
  IN Walk(w1, prefix, p, <<>>, len)

--------------------------------------------------------------------------
(* PW1 / PW2: the lazily prefixed stream, cut by a byte budget (-1 = unlimited).  Pieces are <<isData, segs>>. *)
RECURSIVE Pieces(_, _, _)
Pieces(prefix, atStart, p) ==
  IF p = <<>> THEN <<>>
  ELSE LET r == p[1]
           pre == IF atStart THEN << <<FALSE, prefix>> >> ELSE <<>> IN
       IF r[2] <= 0 THEN Pieces(prefix, atStart, Tail(p))
       ELSE IF r[1] # NL THEN pre \o << <<TRUE, <<r>> >> >> \o Pieces(prefix, FALSE, Tail(p))
       ELSE pre \o << <<TRUE, << <<NL, 1, 0>> >> >> >> \o
            Pieces(prefix, TRUE, IF r[2] = 1 THEN Tail(p) ELSE << <<NL, r[2] - 1, 0>> >> \o Tail(p))
RECURSIVE Budgeted(_, _, _)
Budgeted(ps, budget, acc) ==             \* acc = [out, n]
  IF ps = <<>> \/ budget = 0 THEN acc
  ELSE LET t == S!Total(ps[1][2])
           k == IF budget < 0 \/ t <= budget THEN t ELSE budget IN
       Budgeted(Tail(ps), IF budget < 0 THEN -1 ELSE budget - k,
                [out |-> acc.out \o S!Take(ps[1][2], k), n |-> acc.n + (IF ps[1][1] THEN k ELSE 0)])
EndsAtLineStart(atStart, p) == IF S!Total(p) = 0 THEN atStart ELSE S!At(S!Drop(p, S!Total(p) - 1)[1], 0) = NL
\* [out, n, err, atStart]
Lazy(prefix, atStart, budget, p) ==
  LET b == Budgeted(Pieces(prefix, atStart, p), budget, [out |-> <<>>, n |-> 0]) IN
  [out |-> b.out, n |-> b.n, err |-> b.n < S!Total(p), atStart |-> EndsAtLineStart(atStart, p)]
\* the two descriptions coincide when the sink does not fail transiently (checked on the design model)
BudgetOf(sk) == IF sk.failAt < 0 THEN -1 ELSE sk.failAt - sk.acc
AgreesWithLazy(prefix, mid, sk, p) ==
  Transient(sk) \/
  LET a == PWrite(prefix, mid, sk, p)
      l == Lazy(prefix, ~mid, BudgetOf(sk), p) IN
  /\ S!Same(a.out, l.out) /\ a.written = l.n /\ a.err = l.err
  /\ (~a.err => a.mid = ~l.atStart)

--------------------------------------------------------------------------
(* the monitor.  State: [prefix, atStart, acc, failAt, failed].  Events:                               *)
(*   [k |-> "pwcase", prefix, failAt, period, sticky]      a fresh writer over a fresh sink            *)
(*   [k |-> "w", p, res ("ok"/"panic"), n, err ("nil"/"sink"/"other"), got, serr, pmod]               *)
(*      got = bytes the sink accepted during the call, serr = number of sink calls it answered with    *)
(*      an error during the call, pmod = p or Prefix was modified by the call                          *)
PWInit == [prefix |-> <<>>, atStart |-> TRUE, acc |-> 0, failAt |-> -1, failed |-> FALSE]
PWMon(st, e) ==
  IF e.k = "pwcase"
  THEN [st |-> [prefix |-> e.prefix, atStart |-> TRUE, acc |-> 0, failAt |-> e.failAt, failed |-> FALSE], cs |-> <<>>]
  ELSE LET ok == e.res = "ok"
           len == S!Total(e.p)
           glen == S!Total(e.got)
           want == Lazy(st.prefix, st.atStart, -1, e.p)                    \* PW1: the whole image of p
           healthy == ~st.failed /\ e.serr = 0
           first == ~st.failed /\ e.serr > 0
           b == IF st.failAt < 0 THEN 0 ELSE st.failAt - st.acc             \* budget before the call (while not failed)
           nmax == IF first THEN Lazy(st.prefix, st.atStart, b, e.p).n + (glen - b) ELSE 0
       IN
       [st |-> [st EXCEPT !.atStart = want.atStart, !.acc = @ + glen, !.failed = @ \/ e.serr > 0],
        cs |-> << <<"PW", ~S!Runs(e.p) \/ ~S!Runs(st.prefix) \/ ~S!Runs(e.got), <<"harness: byte strings must be logged as runs">> >>,
                  <<"PW", ~ok, <<"Write panicked">> >>,
                  <<"PW", ok /\ e.pmod, <<"Write modified the caller's slice or the prefix">> >>,
                  \* io.Writer, every call
                  <<"PW", ok /\ (e.n < 0 \/ e.n > len), <<"Write returned a count outside 0..len(p):", e.n, len>> >>,
                  <<"PW", ok /\ e.n < len /\ e.err = "nil", <<"Write returned", e.n, "of", len, "bytes without an error">> >>,
                  <<"PW", ok /\ e.n > glen, <<"Write claims", e.n, "bytes of p but the sink took only", glen, "bytes in the call">> >>,
                  \* PW1
                  <<"PW", ok /\ healthy /\ ~S!Same(e.got, want.out),
                     IF ok /\ healthy THEN <<"sink must receive", want.out, "received", e.got, "chunk", e.p, "prefix", st.prefix,
                                             "at line start", st.atStart>> ELSE <<>> >>,
                  <<"PW", ok /\ healthy /\ (e.n # len \/ e.err # "nil"),
                     <<"the sink accepted everything: Write must return", len, "nil; returned", e.n, e.err>> >>,
                  \* PW2
                  <<"PW", ok /\ first /\ (glen < b \/ ~S!Same(S!Take(e.got, b), S!Take(want.out, b))),
                     IF ok /\ first THEN <<"up to its first refusal the sink must receive", S!Take(want.out, b), "received", S!Take(e.got, b),
                                           "chunk", e.p, "prefix", st.prefix, "at line start", st.atStart>> ELSE <<>> >>,
                  <<"PW", ok /\ first /\ glen >= b /\ ~S!Subseq(S!Drop(e.got, b), S!Drop(want.out, b)),
                     IF ok /\ first THEN <<"after its first refusal the sink received", S!Drop(e.got, b), "which is not part of", S!Drop(want.out, b)>> ELSE <<>> >>,
                  <<"PW", ok /\ first /\ e.n > nmax, <<"Write claims", e.n, "bytes of p, the sink can have taken at most", nmax>> >>,
                  <<"PW", ok /\ first /\ e.err = "nil" /\ ~S!Subseq(e.p, e.got),
                     <<"Write reported success but the sink did not receive all of p:", e.got>> >> >>]
====
