CONSTANTS MaxLen = 3  MaxFail = 14  MaxOps = 2  Bug = ""  Emit = TRUE
CONSTANTS Chunks <- MCChunks  Prefixes <- MCPrefixes  FailAts <- MCFailAts  Modes <- MCModes
INIT Init
NEXT Next
INVARIANT NoMismatch
INVARIANT LazyOk
INVARIANT AsCoded
INVARIANT StateOk
INVARIANT EmitCase
CHECK_DEADLOCK FALSE
