CONSTANTS MaxOps = 3  Bug = ""  Emit = TRUE
CONSTANTS Mods <- MCMods  Msgs <- MCMsgs
INIT Init
NEXT Next
INVARIANT NoMismatch
INVARIANT StateOk
INVARIANT EmitCase
CHECK_DEADLOCK FALSE
