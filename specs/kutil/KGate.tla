---- MODULE KGate ----
(***************************************************************************)
(* extra-kutil (d) - gate.HandleInterrupt (handler table + IDT) and          *)
(* cpu.IsIntel, property level.                                             *)
(*                                                                          *)
(* STATEMENTS                                                               *)
(* KG1  After HandleInterrupt(v, ist, h) the handler slot of vector v holds  *)
(*      h - the last registration wins - and the IDT descriptor of v is a    *)
(*      present 64-bit interrupt gate (type/attr 0x8e) in the kernel code    *)
(*      segment (selector 0x08) carrying ist, whose offset is the entry stub *)
(*      of vector v: the stub that loads handler slot v and, for the vectors *)
(*      where the CPU pushes no error code, pushes v in its place.  The       *)
(*      vectors with a CPU error code are 8, 10-14, 17 and 30 (as coded).    *)
(* KG2  Registration touches nothing else: the slots and descriptors of all  *)
(*      other vectors keep their contents, a vector that was never           *)
(*      registered has an empty slot and a non-present (all-zero) descriptor.*)
(* KC1  cpu.IsIntel() is true exactly when the vendor string CPUID leaf 0    *)
(*      reports - EBX, EDX, ECX in that order, each little endian - is       *)
(*      "GenuineIntel"; EAX and every other leaf are irrelevant.             *)
(* Deviations, modelled as coded and named:                                  *)
(*   Dev_IstNotMasked     the IST byte is stored as given (the hardware      *)
(*                        defines bits 0..2, the rest is reserved);          *)
(*   Dev_CodePointerOnly  a handler is stored as its bare code address: the  *)
(*                        context of a closure is dropped, so "the handler"  *)
(*                        means "the function", and the harness registers    *)
(*                        distinct top-level functions only.                 *)
(* Limits: the dispatch path (entry stub -> dispatchInterrupt -> handler ->  *)
(* IRETQ) is not executed: under the host toolchain Go functions use the     *)
(* register ABI and reserve R14, which the kernel's stack-based dispatcher   *)
(* (written for the pinned old toolchain) does not honour.  The tables are   *)
(* read through addresses decoded from the package's own machine code.       *)
(***************************************************************************)
EXTENDS Integers, Sequences, FiniteSets, TLC

Dev_IstNotMasked == TRUE
Dev_CodePointerOnly == TRUE

NVec == 256
ErrCodeVectors == {8, 10, 11, 12, 13, 14, 17, 30}
GateType == 142         \* 0x8e
KernelCS == 8
None == 256             \* "no number pushed" / "not a stub"

\* table: vector -> <<handler id (0 = none), ist>>
GEmpty == [v \in 0..(NVec - 1) |-> <<0, 0>>]
GReg(tab, v, ist, h) == [tab EXCEPT ![v] = <<h, ist>>]
\* the observable rows <<v, handler, type, selector, ist, stub slot, pushed number, reserved>> of all non-empty vectors
RowOf(tab, v) == <<v, tab[v][1], GateType, KernelCS, tab[v][2], v, IF v \in ErrCodeVectors THEN None ELSE v, 0>>
Rows(tab) == {RowOf(tab, v) : v \in {u \in 0..(NVec - 1) : tab[u][1] # 0}}

(* events: [k |-> "greset"]  both tables zeroed by the harness (power-on state)                                *)
(*         [k |-> "reg", v, ist, h, res, rows]  h = id of a harness function (>= 1); rows = projection of all   *)
(*                    vectors whose slot or descriptor is not all zero (999 = undecodable / unknown handler)   *)
KGMon(tab, e) ==
  IF e.k = "greset" THEN [st |-> GEmpty, cs |-> <<>>]
  ELSE LET t2 == GReg(tab, e.v, e.ist, e.h)
           got == {e.rows[i] : i \in 1..Len(e.rows)}
           want == Rows(t2)
           wrong == (got \ want) \cup (want \ got) IN
       [st |-> t2,
        cs |-> << <<"KG", e.res # "ok", <<"HandleInterrupt faulted or panicked for vector", e.v>> >>,
                  <<"KG", e.res = "ok" /\ (got # want \/ Len(e.rows) # Cardinality(want)),
                     <<"after HandleInterrupt(vector, ist, handler)", e.v, e.ist, e.h, "rows <<v, handler, type, cs, ist, stub, pushed, rsv>> expected",
                       want \ got, "found instead", got \ want>> >> >>]

--------------------------------------------------------------------------
Intel == <<71, 101, 110, 117, 105, 110, 101, 73, 110, 116, 101, 108>>          \* "GenuineIntel"
\* regs = <<eax, ebx, ecx, edx>>, each <<b0, b1, b2, b3>> little endian
Vendor(regs) == regs[2] \o regs[4] \o regs[3]
(* event: [k |-> "intel", l0, alt, res]  l0 = what CPUID answers for leaf 0, alt = for any other leaf; res "true"/"false"/"panic" *)
KCMon(e) ==
  LET want == IF Vendor(e.l0) = Intel THEN "true" ELSE "false" IN
  << <<"KC", e.res # want, <<"IsIntel must be", want, "for the vendor string", Vendor(e.l0), "(EBX, EDX, ECX of leaf 0); was", e.res>> >> >>
====
