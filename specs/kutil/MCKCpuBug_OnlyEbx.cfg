CONSTANTS Bug = "OnlyEbx"  Emit = FALSE
CONSTANT Words <- MCWords
INIT Init
NEXT Next
INVARIANT NoMismatch
INVARIANT EmitCase
CHECK_DEADLOCK FALSE
