---- MODULE KGateModel ----
(***************************************************************************)
(* extra-kutil (d) - design model of gate.HandleInterrupt as coded           *)
(* (gate_amd64.s): store the handler's code address in gateHandlers[v];      *)
(* find the entry stub of v by scanning the stub area for v 4xNOP delimiters *)
(* (stubs have two different lengths, with / without CPU error code); write  *)
(* the descriptor (non-present first, selector, ist, offset, type 0x8e).     *)
(* The stub area is modelled as a byte string over {"x", "n"} built from the *)
(* same vector classification; the projection decodes the stub an offset     *)
(* points to exactly as the harness does with the real machine code.         *)
(* Design mutants: FirstWins, DelimiterThree (skips 3 of the 4 NOPs),        *)
(* IstDropped, SlotOfPrevious (handler stored in slot v-1).                  *)
(***************************************************************************)
EXTENDS Integers, Sequences, SequencesExt, FiniteSets, TLC, Json, CSV, IOUtils, TraceLib
CONSTANTS VSet, Hs, Ists, MaxOps, Bug, Emit
KG == INSTANCE KGate
NV == 12                              \* vectors modelled (includes 8, 10, 11 with error code)

VARIABLES handlers, idt,              \* gateHandlers[v] (0 = empty), idt[v] = <<type, sel, ist, offset>>
          st, nops, script, mismatch
vars == <<handlers, idt, st, nops, script, mismatch>>

\* the stub area: for every vector some code, then the delimiter
StubCode(v) == IF v \in KG!ErrCodeVectors THEN <<"x", "x", "n", "n", "n", "n">> ELSE <<"x", "x", "x", "n", "n", "n", "n">>
RECURSIVE AreaR(_)
AreaR(v) == IF v = NV THEN <<"x">> ELSE StubCode(v) \o AreaR(v + 1)
Area == AreaR(0)
RECURSIVE StartOf(_)
StartOf(v) == IF v = 0 THEN 0 ELSE StartOf(v - 1) + Len(StubCode(v - 1))        \* 0-based offsets
IsDelim(si) == si + 4 <= Len(Area) /\ \A k \in 1..4 : Area[si + k] = "n"
\* find_nop_delimiter: INCQ SI; CMPL 0(SI), $0x90909090; JNE find_nop_delimiter
RECURSIVE FindDelim(_)
FindDelim(si) == IF si + 1 >= Len(Area) THEN si + 1 ELSE IF IsDelim(si + 1) THEN si + 1 ELSE FindDelim(si + 1)
RECURSIVE Scan(_, _)
Scan(si, cx) == IF cx = 0 THEN si ELSE Scan(FindDelim(si) + (IF Bug = "DelimiterThree" THEN 3 ELSE 4), cx - 1)

Init == /\ handlers = [v \in 0..(NV - 1) |-> 0] /\ idt = [v \in 0..(NV - 1) |-> <<0, 0, 0, 0>>]
        /\ st = KG!GEmpty /\ nops = 0 /\ script = <<>> /\ mismatch = <<>>

\* projection, as the harness computes it from the real tables
StubAt(off) == IF \E v \in 0..(NV - 1) : StartOf(v) = off THEN CHOOSE v \in 0..(NV - 1) : StartOf(v) = off ELSE 999
RowsOf(hs, it) ==
  LET live == {v \in 0..(NV - 1) : hs[v] # 0 \/ it[v] # <<0, 0, 0, 0>>}
      row(v) == LET s == StubAt(it[v][4]) IN
                <<v, hs[v], it[v][1], it[v][2], it[v][3], s, IF s = 999 THEN 999 ELSE IF s \in KG!ErrCodeVectors THEN KG!None ELSE s, 0>>
  IN SetToSeq({row(v) : v \in live})

Register(v, ist, h) ==
  /\ nops < MaxOps
  /\ LET slot == IF Bug = "SlotOfPrevious" /\ v > 0 THEN v - 1 ELSE v
         hs2 == IF Bug = "FirstWins" /\ handlers[slot] # 0 THEN handlers ELSE [handlers EXCEPT ![slot] = h]
         it2 == [idt EXCEPT ![v] = <<KG!GateType, KG!KernelCS, IF Bug = "IstDropped" THEN 0 ELSE ist, Scan(0, v)>>]
         e == [k |-> "reg", v |-> v, ist |-> ist, h |-> h, res |-> "ok", rows |-> RowsOf(hs2, it2)]
         m == KG!KGMon(st, e)
     IN handlers' = hs2 /\ idt' = it2 /\ st' = m.st /\ mismatch' = FirstFailIn({"KG"}, nops + 1, m.cs)
  /\ nops' = nops + 1 /\ script' = Append(script, <<v, ist, h>>)

Next == mismatch = <<>> /\ \E v \in VSet, i \in Ists, h \in Hs : Register(v, i, h)
NoMismatch == mismatch = <<>>
EmitCase == (Emit /\ nops = MaxOps /\ mismatch = <<>>) => CSVWrite("%1$s", <<ToJson([regs |-> script])>>, IOEnv.CASES)
====
