---- MODULE KMem ----
(***************************************************************************)
(* extra-kutil (c) - kernel.Memset / kernel.Memcopy, property level.         *)
(*                                                                          *)
(* STATEMENTS                                                               *)
(* KM1  Memset(addr, value, size) makes each of the size bytes starting at   *)
(*      addr equal to value, for every size (0 does nothing, not even touch  *)
(*      addr), alignment and value; no other byte is written.                *)
(* KM2  Memcopy(src, dst, size) makes the size bytes at dst equal to the     *)
(*      size bytes that were at src *before* the call, for every size and    *)
(*      alignment; no other byte - in particular no byte of src outside dst  *)
(*      - is written; size 0 does nothing.                                   *)
(*      Overlap: the doc comment ("copies size bytes from src to dst") is    *)
(*      silent; the code uses Go's built-in copy, which the language defines *)
(*      for overlapping operands, so memmove semantics is what the code      *)
(*      promises and what is specified here (OverlapIsMemmove).              *)
(* Neither function faults or panics when [addr, addr+size) is mapped.       *)
(*                                                                          *)
(* Memory is observed as one arena (KuSeg segment list) before and after the *)
(* call; offsets are relative to the arena, whose first byte is page aligned.*)
(* Sizes >= 2^63 (negative slice length) are outside the statement.          *)
(***************************************************************************)
EXTENDS Integers, Sequences, TLC
S == INSTANCE KuSeg

OverlapIsMemmove == TRUE

AfterMemset(pre, off, val, size) == S!Take(pre, off) \o S!Rep(val, size) \o S!Drop(pre, off + size)
AfterMemcopy(pre, src, dst, size) == S!Take(pre, dst) \o S!Slice(pre, src, size) \o S!Drop(pre, dst + size)
Overlap(src, dst, size) == size > 0 /\ src < dst + size /\ dst < src + size /\ src # dst

(* events: [k |-> "memset", off, val, size, pre, post, res]  [k |-> "memcopy", src, dst, size, pre, post, res]  *)
(* pre / post: the whole arena before / after; res "ok" | "panic" (fault or Go panic inside the call)           *)
KMMon(e) ==
  IF e.k = "memset"
  THEN LET want == AfterMemset(e.pre, e.off, e.val, e.size) IN
       << <<"KM", e.res # "ok", <<"Memset faulted or panicked: offset, value, size", e.off, e.val, e.size>> >>,
          <<"KM", e.res = "ok" /\ ~S!Same(e.post, want),
             <<"Memset(offset, value, size)", e.off, e.val, e.size, "must leave", want, "left", e.post>> >> >>
  ELSE LET want == AfterMemcopy(e.pre, e.src, e.dst, e.size)
           free == ~OverlapIsMemmove /\ Overlap(e.src, e.dst, e.size)
           \* without a memmove promise only the bytes outside dst are determined
           outside == S!Same(S!Take(e.post, e.dst), S!Take(e.pre, e.dst)) /\
                      S!Same(S!Drop(e.post, e.dst + e.size), S!Drop(e.pre, e.dst + e.size)) IN
       << <<"KM", e.res # "ok", <<"Memcopy faulted or panicked: src, dst, size", e.src, e.dst, e.size>> >>,
          <<"KM", e.res = "ok" /\ (IF free THEN ~outside ELSE ~S!Same(e.post, want)),
             <<"Memcopy(src, dst, size)", e.src, e.dst, e.size, "must leave", want, "left", e.post>> >> >>
====
