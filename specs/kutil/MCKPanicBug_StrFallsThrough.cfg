CONSTANTS MaxOps = 2  Bug = "StrFallsThrough"  Emit = FALSE
CONSTANTS Mods <- MCMods  Msgs <- MCMsgs
INIT Init
NEXT Next
INVARIANT NoMismatch
INVARIANT StateOk
INVARIANT EmitCase
CHECK_DEADLOCK FALSE
