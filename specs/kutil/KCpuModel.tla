---- MODULE KCpuModel ----
(***************************************************************************)
(* extra-kutil (d) - design model of cpu.IsIntel as coded: one CPUID query   *)
(* for leaf 0, EBX = "Genu" and EDX = "ineI" and ECX = "ntel".  Every        *)
(* assignment of the register words of the scope is a case; KGate!KCMon      *)
(* judges the answer.  Design mutants: OrderBCD (registers compared in       *)
(* EBX, ECX, EDX order), OnlyEbx, AnyOf (or instead of and), Leaf1.          *)
(***************************************************************************)
EXTENDS Integers, Sequences, FiniteSets, TLC, Json, CSV, IOUtils, TraceLib
CONSTANTS Words, Bug, Emit
KG == INSTANCE KGate
Genu == <<71, 101, 110, 117>>  IneI == <<105, 110, 101, 73>>  Ntel == <<110, 116, 101, 108>>
IntelRegs == <<<<13, 0, 0, 0>>, Genu, Ntel, IneI>>
OtherRegs == <<<<1, 0, 0, 0>>, <<0, 0, 0, 0>>, <<0, 0, 0, 0>>, <<0, 0, 0, 0>>>>

VARIABLES l0, alt, done, mismatch
vars == <<l0, alt, done, mismatch>>
Init == /\ \E a \in {<<13, 0, 0, 0>>, Genu}, b \in Words, c \in Words, d \in Words : l0 = <<a, b, c, d>>
        /\ alt \in {IntelRegs, OtherRegs} /\ done = FALSE /\ mismatch = <<>>
Cpuid(leaf) == IF leaf = 0 THEN l0 ELSE alt
IsIntelImpl ==
  LET r == Cpuid(IF Bug = "Leaf1" THEN 1 ELSE 0)
      b == r[2] = Genu
      d == IF Bug = "OrderBCD" THEN r[3] = IneI ELSE r[4] = IneI
      c == IF Bug = "OrderBCD" THEN r[4] = Ntel ELSE r[3] = Ntel
  IN CASE Bug = "OnlyEbx" -> b [] Bug = "AnyOf" -> b \/ c \/ d [] OTHER -> b /\ d /\ c
Call == /\ ~done /\ done' = TRUE /\ UNCHANGED <<l0, alt>>
        /\ LET e == [k |-> "intel", l0 |-> l0, alt |-> alt, res |-> IF IsIntelImpl THEN "true" ELSE "false"] IN
           mismatch' = FirstFailIn({"KC"}, 1, KG!KCMon(e))
Next == Call
NoMismatch == mismatch = <<>>
EmitCase == (Emit /\ ~done) => CSVWrite("%1$s", <<ToJson([l0 |-> l0, alt |-> alt])>>, IOEnv.CASES)
====
