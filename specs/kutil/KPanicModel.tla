---- MODULE KPanicModel ----
(***************************************************************************)
(* extra-kutil (b) - design model of kfmt.Panic as coded (panic.go): the     *)
(* type switch, panicString storing the text in the shared errRuntimePanic   *)
(* and re-entering Panic, the four Printf calls, the halt seam.  Each call   *)
(* builds the event the harness would log; KPanic!KPMon judges it.           *)
(* Design mutants: StrFallsThrough (no return after panicString),            *)
(* ErrStaleMessage (foreign error does not store its text), HaltFirst,       *)
(* ModuleOmitted, OtherPrinted is NOT a mutant (see Dev_OtherKindsSilent).   *)
(***************************************************************************)
EXTENDS Integers, Sequences, FiniteSets, TLC, Json, CSV, IOUtils, TraceLib
CONSTANTS Mods, Msgs, MaxOps, Bug, Emit
KP == INSTANCE KPanic
S == INSTANCE KuSeg

VARIABLES rtmsg,          \* errRuntimePanic.Message (bytes)
          st, nops, script, mismatch
vars == <<rtmsg, st, nops, script, mismatch>>
InitialRt == <<117, 110, 107, 110, 111, 119, 110, 32, 99, 97, 117, 115, 101>>      \* "unknown cause"

Init == rtmsg = InitialRt /\ st = S!Lits(InitialRt) /\ nops = 0 /\ script = <<>> /\ mismatch = <<>>

Args == {<<"kerr", m, g>> : m \in Mods, g \in Msgs} \cup {<<k, <<>>, g>> : k \in {"err", "str"}, g \in Msgs}
        \cup {<<k, <<>>, <<>> >> : k \in {"kerrnil", "nil", "other", "rtself"}}

\* the body of Panic once err is known: a list of print / halt operations
Body(has, mod, msg) ==
  LET line == IF has THEN << <<"print", (IF Bug = "ModuleOmitted" THEN <<91>> ELSE <<91>> \o mod) \o S!Bytes(KP!Unrec) \o msg \o <<10>> >> >> ELSE <<>>
      prints == << <<"print", <<10>> \o S!Bytes(KP!Rule) \o <<10>> >> >> \o line \o
                << <<"print", S!Bytes(KP!Banner)>>, <<"print", <<10>> \o S!Bytes(KP!Rule) \o <<10>> >> >>
  IN IF Bug = "HaltFirst" THEN << <<"halt", <<>> >> >> \o prints ELSE prints \o << <<"halt", <<>> >> >>

\* Panic(e): [ops, rt]
PanicImpl(kind, mod, msg, rt) ==
  CASE kind = "kerr" -> [ops |-> Body(TRUE, mod, msg), rt |-> rt]
    [] kind = "rtself" -> [ops |-> Body(TRUE, <<114, 116>>, rt), rt |-> rt]
    [] kind = "str" -> [ops |-> Body(TRUE, <<114, 116>>, msg) \o (IF Bug = "StrFallsThrough" THEN Body(FALSE, <<>>, <<>>) ELSE <<>>), rt |-> msg]
    [] kind = "err" -> IF Bug = "ErrStaleMessage" THEN [ops |-> Body(TRUE, <<114, 116>>, rt), rt |-> rt]
                       ELSE [ops |-> Body(TRUE, <<114, 116>>, msg), rt |-> msg]
    [] OTHER -> [ops |-> Body(FALSE, <<>>, <<>>), rt |-> rt]

\* run the operations against the output sink and the halt seam: [out, halts, before, res]
RECURSIVE Exec(_, _, _)
Exec(ops, hmode, r) ==
  IF ops = <<>> THEN r
  ELSE IF ops[1][1] = "print" THEN Exec(Tail(ops), hmode, [r EXCEPT !.out = @ \o ops[1][2]])
  ELSE LET h == [r EXCEPT !.halts = @ + 1, !.before = IF r.halts = 0 THEN Len(r.out) ELSE @] IN
       IF hmode = "unwind" THEN [h EXCEPT !.res = "unwound"] ELSE Exec(Tail(ops), hmode, h)

Call(a, hmode) ==
  /\ nops < MaxOps
  /\ LET x == PanicImpl(a[1], a[2], a[3], rtmsg)
         r0 == Exec(x.ops, hmode, [out |-> <<>>, halts |-> 0, before |-> -1, res |-> "returned"])
         r == IF r0.halts = 0 THEN [r0 EXCEPT !.before = Len(r0.out)] ELSE r0
         e == [k |-> "panic", kind |-> a[1], mod |-> S!Lits(a[2]), msg |-> S!Lits(a[3]), hmode |-> hmode, res |-> r.res,
               out |-> S!Lits(r.out), halts |-> r.halts, before |-> r.before]
         m == KP!KPMon(st, e)
     IN /\ rtmsg' = x.rt /\ st' = m.st /\ mismatch' = FirstFailIn({"KP"}, nops + 1, m.cs)
  /\ nops' = nops + 1 /\ script' = Append(script, [kind |-> a[1], mod |-> a[2], msg |-> a[3], hmode |-> hmode])

Next == mismatch = <<>> /\ \E a \in Args : \E h \in {"ret", "unwind"} : Call(a, h)
NoMismatch == mismatch = <<>>
StateOk == mismatch = <<>> => S!Same(st, S!Lits(rtmsg))
EmitCase == (Emit /\ nops = MaxOps /\ mismatch = <<>>) => CSVWrite("%1$s", <<ToJson([calls |-> script])>>, IOEnv.CASES)
====
