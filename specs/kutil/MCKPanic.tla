---- MODULE MCKPanic ----
EXTENDS KPanicModel
MCMods == {<<>>, <<109, 109>>}
MCMsgs == {<<>>, <<120>>, <<37, 115, 37>>, <<120, 10, 91>>}
\* the deeper scope: fewer texts, longer histories
MCMods1 == {<<109, 109>>}
MCMsgs2 == {<<>>, <<37, 115, 10>>}
====
