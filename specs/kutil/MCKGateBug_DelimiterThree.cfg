CONSTANTS VSet = {0, 7, 8, 9, 11}  Hs = {1, 2}  Ists = {0, 1, 9}  MaxOps = 2  Bug = "DelimiterThree"  Emit = FALSE
INIT Init
NEXT Next
INVARIANT NoMismatch
INVARIANT EmitCase
CHECK_DEADLOCK FALSE
