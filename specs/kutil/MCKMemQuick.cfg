CONSTANTS N = 10  Vals = {0, 7}  Bug = ""  Emit = TRUE
INIT Init
NEXT Next
INVARIANT NoMismatch
INVARIANT EmitCase
CHECK_DEADLOCK FALSE
