---- MODULE KuSeg ----
(***************************************************************************)
(* extra-kutil - byte strings as *segment lists* (shared by all parts).      *)
(*                                                                          *)
(* A segment is <<start, len, stride>> with stride 0 or 1:                   *)
(*     byte i of the segment (0 <= i < len) = start            (stride 0)    *)
(*                                          = (start + i) % 251 (stride 1)   *)
(* Stride 0 is a run of equal bytes (any value 0..255), stride 1 is the      *)
(* serial pattern the memory harness fills its arena with (values < 251).    *)
(* The harness logs every byte string in this form - a lossless re-encoding  *)
(* that keeps 64 KiB arenas and long writes out of the trace.  Nothing here  *)
(* depends on *how* a string was cut into segments: strings are compared     *)
(* with Same (semantic equality), never structurally.                        *)
(***************************************************************************)
EXTENDS Integers, Sequences, SequencesExt, TLC
M == 251

At(s, i) == IF s[3] = 0 THEN s[1] ELSE (s[1] + i) % M
Adv(s, n) == <<At(s, n), s[2] - n, s[3]>>                 \* the segment without its first n bytes
Cut(s, n) == <<s[1], n, s[3]>>                            \* its first n bytes

\* iteration is done with SequencesExt!FoldLeft (a Java loop): TLC's cost of a recursive operator grows with
\* the square of the recursion depth, which matters for strings of 100+ segments (a panic report in run form)
Total(q) == FoldLeft(LAMBDA acc, s : acc + (IF s[2] > 0 THEN s[2] ELSE 0), 0, q)

Drop(q, n) ==
  FoldLeft(LAMBDA acc, s : IF s[2] <= 0 THEN acc
                           ELSE IF acc[2] <= 0 THEN <<Append(acc[1], s), 0>>
                           ELSE IF s[2] <= acc[2] THEN <<acc[1], acc[2] - s[2]>>
                           ELSE <<Append(acc[1], Adv(s, acc[2])), 0>>, << <<>>, n>>, q)[1]
Take(q, n) ==
  FoldLeft(LAMBDA acc, s : IF s[2] <= 0 \/ acc[2] <= 0 THEN acc
                           ELSE IF s[2] <= acc[2] THEN <<Append(acc[1], s), acc[2] - s[2]>>
                           ELSE <<Append(acc[1], Cut(s, acc[2])), 0>>, << <<>>, n>>, q)[1]
Slice(q, from, n) == Take(Drop(q, from), n)
Rep(b, n) == IF n > 0 THEN << <<b, n, 0>> >> ELSE <<>>
Lits(bs) == <<>> \o [i \in 1..Len(bs) |-> <<bs[i], 1, 0>>]       \* (\o makes TLC build the tuple once)

\* start offset of every segment, then the total
Offs(q) == FoldLeft(LAMBDA acc, s : Append(acc, acc[Len(acc)] + (IF s[2] > 0 THEN s[2] ELSE 0)), <<0>>, q)
ByteAt(q, offs, pos) == LET i == CHOOSE i \in 1..Len(q) : offs[i] <= pos /\ pos < offs[i + 1] IN At(q[i], pos - offs[i])
\* Semantic equality.  Both strings are piecewise affine (stride 0 or 1, modulo 251); between two consecutive
\* breakpoints of either string both are affine, and two affine pieces that agree on their first two bytes
\* agree everywhere (equal first and second bytes force equal strides because 251 > 1).  So it suffices to
\* compare the bytes at every breakpoint p and at p + 1.
SameBig(a, b) ==
  LET oa == Offs(a)  ob == Offs(b)
      ta == oa[Len(oa)]  tb == ob[Len(ob)] IN
  /\ ta = tb
  /\ \A p \in {oa[i] : i \in 1..Len(a)} \cup {ob[i] : i \in 1..Len(b)} :
        /\ (p < ta => ByteAt(a, oa, p) = ByteAt(b, ob, p))
        /\ (p + 1 < ta => ByteAt(a, oa, p + 1) = ByteAt(b, ob, p + 1))
\* expansion (small-scope models, explanations, and the comparison of short strings: cheaper than the walk)
Bytes(q) == FoldLeft(LAMBDA acc, s : acc \o [i \in 1..(IF s[2] > 0 THEN s[2] ELSE 0) |-> At(s, i - 1)], <<>>, q)
Same(a, b) == LET t == Total(a) IN
              t = Total(b) /\ (IF t <= 2048 THEN Bytes(a) = Bytes(b) ELSE SameBig(a, b))

\* run lists (stride 0): merge adjacent runs of the same byte, drop empty ones
CanonRuns(q) == FoldLeft(LAMBDA acc, s : IF s[2] <= 0 THEN acc
                                        ELSE IF acc # <<>> /\ acc[Len(acc)][1] = s[1]
                                        THEN [acc EXCEPT ![Len(acc)] = <<s[1], acc[Len(acc)][2] + s[2], 0>>]
                                        ELSE Append(acc, <<s[1], s[2], 0>>), <<>>, q)
\* is run list a a subsequence of run list e?  (greedy earliest match, one Java loop over e)
Subseq(a, e) ==
  LET ac == CanonRuns(a)
      f == FoldLeft(LAMBDA st, r : IF st[1] > Len(ac) \/ r[2] <= 0 \/ ac[st[1]][1] # r[1] THEN st
                                   ELSE IF r[2] < st[2] THEN <<st[1], st[2] - r[2]>>
                                   ELSE IF st[1] + 1 > Len(ac) THEN <<st[1] + 1, 0>>
                                   ELSE <<st[1] + 1, ac[st[1] + 1][2]>>,
                    IF ac = <<>> THEN <<1, 0>> ELSE <<1, ac[1][2]>>, e)
  IN f[1] > Len(ac)

\* well-formed logged string: byte values, positive lengths, stride 1 only below 251
WF(q) == \A i \in 1..Len(q) : /\ Len(q[i]) = 3 /\ q[i][1] \in 0..255 /\ q[i][2] >= 1 /\ q[i][3] \in {0, 1}
                              /\ (q[i][3] = 1 => q[i][1] < M)
\* a string the line-oriented specs can scan: runs only
Runs(q) == \A i \in 1..Len(q) : q[i][3] = 0

====
