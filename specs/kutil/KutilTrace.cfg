INIT Init
NEXT Next
POSTCONDITION Accepted
CHECK_DEADLOCK FALSE
