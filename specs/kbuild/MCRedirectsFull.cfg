CONSTANTS DocLen = 3  MaxDecls = 3  MaxFiles = 3  NRuns = 3  Sizes = {4095, 4096, 65535, 65536, 100000, 1048576}  Bug = ""  Emit = TRUE
INIT Init
NEXT Next
INVARIANT NoMismatch
INVARIANT EmitCase
CHECK_DEADLOCK FALSE
