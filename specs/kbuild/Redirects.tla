---- MODULE Redirects ----
(***************************************************************************)
(* C20 - what the kernel build tool's redirect discovery must produce,      *)
(* written once as a *monitor*: operators that take the monitor state `s`   *)
(* and one observed event `e` and return the next monitor state plus the    *)
(* checks the event fails.  The same operators judge (a) the design model   *)
(* RedirectsModel (small scope, explored exhaustively by TLC) and (b)       *)
(* traces recorded from the real kbuild package (RedirectsTrace).           *)
(*                                                                          *)
(* Abstract source tree = sequence of files                                 *)
(*   file = [dir  : sequence of path segments below the kernel root,        *)
(*           name : base name, ext : ".go" | "_test.go" | anything else,    *)
(*           pkg  : name in the package clause (irrelevant for the result), *)
(*           hdr  : comment lines above the package clause,                 *)
(*           imp  : comment lines on top of the import declaration (no      *)
(*                  import declaration when empty),                         *)
(*           text : [eol: "lf" | "crlf", bom: 0 | 1, nonl: 0 | 1] line ends,*)
(*                  byte-order mark, no newline at the end of the file,     *)
(*           decls: sequence of top-level declarations]                     *)
(*   decl = [kind : "func" | "method" | "var" | "varfunc" | "type" |        *)
(*                  "iface" | "const",  name,                               *)
(*           recv : "" | "T" | pointer form "( *T)" written without the     *)
(*                  blank: receiver of a method,                            *)
(*           doc  : comment lines directly above the declaration,           *)
(*           body : comment lines inside it, tl : comment on its last line, *)
(*           ta   : comment lines right below it]                           *)
(*   line = <<t, sym>> with t =                                             *)
(*     "R" //go:redirect-from sym        the annotation                     *)
(*     "D" any other //go: directive     "T" prose                          *)
(*     "S" // go:redirect-from sym       (space: an ordinary comment)       *)
(*     "M" prose that mentions //go:redirect-from sym                       *)
(*     "K" a /* */ comment containing the annotation text                   *)
(*     "B" an empty line: what stands above it is not attached to the decl  *)
(*   Input size is part of the tree but not of the result: a line may be    *)
(*   <<t, sym, n>> (rendered exactly n bytes long) and a var/const decl may *)
(*   have wide = n (one source line of n bytes holding a string literal);   *)
(*   trees may have > 1000 files per directory, > 1000 declarations per     *)
(*   file and any directory depth.  Only lengths are logged, never content. *)
(*                                                                          *)
(* Events:  file  f            one file of the tree (in any order)          *)
(*          build res out      one complete run of redirect discovery over  *)
(*                             the tree; out = sequence of <<src, dst>>     *)
(*          reset              end of the case                              *)
(***************************************************************************)
EXTENDS Integers, Sequences, FiniteSets
CONSTANT Prefix            \* import path of the kernel root

Range(q) == {q[i] : i \in 1..Len(q)}

RECURSIVE ImportPath(_)
ImportPath(dir) == IF dir = <<>> THEN Prefix
                   ELSE ImportPath(SubSeq(dir, 1, Len(dir) - 1)) \o "/" \o dir[Len(dir)]
Dst(dir, name) == ImportPath(dir) \o "." \o name

\* the doc comment of a declaration: the comment lines that touch it (everything after the last empty line)
Attached(doc) == LET Bs == {i \in 1..Len(doc) : doc[i][1] = "B"}
                     last == IF Bs = {} THEN 0 ELSE CHOOSE i \in Bs : \A j \in Bs : j <= i
                 IN SubSeq(doc, last + 1, Len(doc))
Annotations(doc) == SelectSeq(Attached(doc), LAMBDA ln : ln[1] = "R")

IsSource(f) == f.ext = ".go"                     \* Go source that is not a test file
\* one entry per annotation of a function declaration, in source order.  A method declaration
\* (d.recv = pointer or value receiver type) is either not a function declaration at all (Go's grammar: annotations on
\* non-functions are ignored) or a function whose fully qualified name is importpath.<recv>.Name (pointer form in parentheses with a star) /
\* importpath.T.Name; the statement admits both readings and the monitor accepts either, tree-wide.
DstOf(dir, d) == IF d.kind = "method" THEN ImportPath(dir) \o "." \o d.recv \o "." \o d.name ELSE Dst(dir, d.name)
DeclEntries(dir, d, kind) == IF d.kind = kind
                             THEN LET a == Annotations(d.doc) IN [i \in 1..Len(a) |-> <<a[i][2], DstOf(dir, d)>>]
                             ELSE <<>>
RECURSIVE ConcatDecls(_, _, _, _)
ConcatDecls(dir, ds, i, kind) == IF i > Len(ds) THEN <<>> ELSE DeclEntries(dir, ds[i], kind) \o ConcatDecls(dir, ds, i + 1, kind)
FileEntriesOf(f, kind) == IF IsSource(f) THEN ConcatDecls(f.dir, f.decls, 1, kind) ELSE <<>>
FileEntries(f) == FileEntriesOf(f, "func")

BagOf(q) == [x \in Range(q) |-> Cardinality({i \in 1..Len(q) : q[i] = x})]
CountIn(q, x) == Cardinality({i \in 1..Len(q) : q[i] = x})
Missing(exp, out) == {x \in Range(exp) : CountIn(out, x) < CountIn(exp, x)}
Extra(exp, out)   == {x \in Range(out) : CountIn(out, x) > CountIn(exp, x)}

S0 == [exp |-> <<>>, expm |-> <<>>, nb |-> 0, first |-> <<>>]

\* cs: sequence of <<property, failed?, explanation>>
MonFile(s, e) == [s |-> [s EXCEPT !.exp = @ \o FileEntriesOf(e.f, "func"), !.expm = @ \o FileEntriesOf(e.f, "method")], cs |-> <<>>]
TableOk(s, out) == \/ BagOf(out) = BagOf(s.exp)
                   \/ (s.expm # <<>> /\ BagOf(out) = BagOf(s.exp \o s.expm))

MonBuild(s, e) ==
  [s  |-> [s EXCEPT !.nb = @ + 1, !.first = IF s.nb = 0 /\ e.res = "ok" THEN e.out ELSE @],
   cs |-> << <<"C20", e.res # "ok", <<"redirect discovery did not complete", e.res>> >>,
             <<"C20", e.res = "ok" /\ ~TableOk(s, e.out),
                      <<"table is not one entry per annotation of a function declaration",
                        "missing", Missing(s.exp, e.out), "unexpected", Extra(s.exp, e.out),
                        "alternatively, for annotated methods", s.expm>> >>,
             <<"C20", e.res = "ok" /\ s.nb > 0 /\ e.out # s.first,
                      <<"same tree, different table order", "build", s.nb + 1, "first", s.first, "now", e.out>> >> >>]

Mon(s, e) == CASE e.k = "file"  -> MonFile(s, e)
               [] e.k = "build" -> MonBuild(s, e)
               [] e.k = "reset" -> [s |-> S0, cs |-> <<>>]
               [] OTHER         -> [s |-> s, cs |-> << <<"C20", TRUE, <<"unknown event", e.k>> >> >>]

FirstFail(line, cs) ==
  LET S == {i \in 1..Len(cs) : cs[i][2]} IN
  IF S = {} THEN <<>> ELSE LET i == CHOOSE j \in S : \A k \in S : j <= k IN <<line, cs[i][1], cs[i][3]>>
====
