---- MODULE RedirectsTrace ----
(* Trace monitor: events recorded from the real kbuild package (Context.FindRedirects run on source *)
(* trees written to a scratch directory, and on the repository's kernel tree) are judged by the     *)
(* operators of module Redirects, one event per step.                                               *)
EXTENDS Integers, Sequences, FiniteSets, TLC, Json, IOUtils, TraceLib
Prefix == "github.com/ProjectSerenity/firefly/kernel"
P == INSTANCE Redirects
Trace == ndJsonDeserialize(IOEnv.TRACE)

VARIABLES l, s, mismatch
vars == <<l, s, mismatch>>

Init == l = 1 /\ s = P!S0 /\ mismatch = <<>>
Next == /\ l <= Len(Trace) /\ mismatch = <<>>
        /\ l' = l + 1
        /\ LET m == P!Mon(s, Trace[l]) IN s' = m.s /\ mismatch' = P!FirstFail(l, m.cs)
        /\ Report(mismatch')
NoMismatch == mismatch = <<>>
Accepted == TLCGet("stats").diameter - 1 = Len(Trace)
====
