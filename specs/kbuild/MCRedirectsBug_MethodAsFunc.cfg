CONSTANTS DocLen = 2  MaxDecls = 2  MaxFiles = 2  NRuns = 3  Sizes = {}  Bug = "MethodAsFunc"  Emit = FALSE
INIT Init
NEXT Next
INVARIANT NoMismatch
INVARIANT EmitCase
CHECK_DEADLOCK FALSE
