---- MODULE MCRedirects ----
(* model-checking instance of RedirectsModel; the scopes are set in the MCRedirects*.cfg files *)
EXTENDS RedirectsModel
====
