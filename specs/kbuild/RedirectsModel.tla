---- MODULE RedirectsModel ----
(***************************************************************************)
(* Design model of kbuild's redirect discovery (Context.FindRedirects):     *)
(* walk the tree, take the Go files that are not tests, visit the function  *)
(* declarations of each file in source order and emit one table entry per   *)
(* //go:redirect-from line of the doc comment.  The source tree is chosen   *)
(* in Init, so one TLC run quantifies over every tree of the small scope;   *)
(* every Build step produces the event the real tool would log and the      *)
(* event is judged by the operators of module Redirects - the same ones     *)
(* that judge traces of the real package.  NoMismatch is C20 for the design.*)
(*                                                                          *)
(* Three families of trees (bounds DocLen / MaxDecls / MaxFiles):           *)
(*  decl: one file, one declaration: every kind x every doc comment of up   *)
(*        to DocLen lines over the seven line types (<= 2 annotations) x    *)
(*        look-alike annotation in the body / on the closing line / below   *)
(*        the declaration / above the package clause / all of them          *)
(*  file: one file, 2..MaxDecls declarations (func / var / method with      *)
(*        0, 1, 2 annotations, prose first, detached comment, look-alike    *)
(*        below) - several annotated functions per file, every adjacency    *)
(*  tree: 2..MaxFiles files at directory depth 0..3, source / test /        *)
(*        non-Go file, package clause equal to or different from the dir    *)
(*  size: one file with two annotated functions and one very long source    *)
(*        line of n \in Sizes bytes (a string literal in a var declaration, *)
(*        a // comment, a /* */ comment holding the annotation text - the    *)
(*        two comment forms on top of the doc comment of a third annotated   *)
(*        function) before, between or after them.  Only the length is part  *)
(*        of the abstract tree: <<t, sym, n>> / wide |-> n.                  *)
(* Design mutants (constant Bug) re-create realistic wrong designs; TLC     *)
(* must reject each of them.                                                *)
(***************************************************************************)
EXTENDS Integers, Sequences, FiniteSets, TLC, Json, CSV, IOUtils
CONSTANTS DocLen, MaxDecls, MaxFiles,
          Sizes,       \* lengths of the very long source lines of the size family
          NRuns,       \* builds of the same tree
          Bug,         \* "" or the name of a design mutant
          Emit

Prefix == "github.com/ProjectSerenity/firefly/kernel"
P == INSTANCE Redirects

VARIABLES files, pc, s, mismatch
vars == <<files, pc, s, mismatch>>

--------------------------------------------------------------------------
(* tree families *)
Letters == {"R", "D", "T", "S", "M", "K", "B"}
SeqsUpTo(S, n) == UNION {[1..k -> S] : k \in 0..n}
NumR(q) == Cardinality({i \in 1..Len(q) : q[i] = "R"})
Docs(n) == {q \in SeqsUpTo(Letters, n) : NumR(q) <= 2}
Kinds == {"func", "method", "var", "varfunc", "type", "iface", "const"}
Places == {"none", "body", "tl", "ta", "hdr", "imp", "all"}

Sym(fi, di, w, j) == "runtime.s" \o ToString(fi) \o ToString(di) \o w \o ToString(j)
Lines(q, fi, di, w) == [j \in 1..Len(q) |-> <<q[j], IF q[j] = "B" THEN "" ELSE Sym(fi, di, w, j)>>]
MkDecl(fi, di, kind, doc, body, tl, ta) ==
  [kind |-> kind, name |-> "Fn" \o ToString(fi) \o "x" \o ToString(di),
   recv |-> IF kind # "method" THEN "" ELSE IF di % 2 = 1 THEN "(*Recv" \o ToString(di) \o ")" ELSE "Recv" \o ToString(di),
   doc |-> Lines(doc, fi, di, "d"), body |-> Lines(body, fi, di, "b"),
   tl |-> Lines(tl, fi, di, "l"), ta |-> Lines(ta, fi, di, "a"), wide |-> 0]
PlainText == [eol |-> "lf", bom |-> 0, nonl |-> 0]
MkFileI(fi, dir, ext, pkg, hdr, imp, decls) ==
  [dir |-> dir, name |-> "f" \o ToString(fi), ext |-> ext, pkg |-> pkg, hdr |-> Lines(hdr, fi, 0, "h"),
   imp |-> Lines(imp, fi, 0, "i"), text |-> PlainText, decls |-> decls]
MkFile(fi, dir, ext, pkg, hdr, decls) == MkFileI(fi, dir, ext, pkg, hdr, <<>>, decls)

If(c, q) == IF c THEN q ELSE <<>>
FamDecl(n) ==
  { << MkFileI(1, <<"a">>, ".go", "a", If(pl \in {"hdr", "all"}, <<"R">>), If(pl \in {"imp", "all"}, <<"R">>),
         << MkDecl(1, 1, k, doc, If(pl \in {"body", "all"}, <<"R">>), If(pl \in {"tl", "all"}, <<"R">>),
                   If(pl \in {"ta", "all"}, <<"R">>)) >>) >> : k \in Kinds, doc \in Docs(n), pl \in Places }

FShapes == {sh \in [kind : {"func", "var", "method"}, doc : {<<>>, <<"R">>, <<"R", "R">>, <<"T", "R">>, <<"R", "B">>}, ta : {<<>>, <<"R">>}] :
              sh.ta = <<>> \/ sh.kind = "func"}
FamFile(m) ==
  UNION { { << MkFile(1, <<>>, ".go", "main", <<>>,
                      [i \in 1..n |-> MkDecl(1, i, q[i].kind, q[i].doc, <<>>, <<>>, q[i].ta)]) >> : q \in [1..n -> FShapes] }
          : n \in 2..m }

Dirs == {<<>>, <<"a">>, <<"a", "b">>, <<"a", "b", "c">>}
Exts == {".go", "_test.go", ".s"}
F1(fi, di, doc) == MkDecl(fi, di, "func", doc, <<>>, <<>>, <<>>)
TDecls(fi) == { <<F1(fi, 1, <<"R">>)>>, <<F1(fi, 1, <<"R">>), F1(fi, 2, <<"R", "R">>)>> }
TFiles(fi) == { MkFile(fi, dir, ext, IF fi % 2 = 0 THEN "other" ELSE "kernel", <<>>, ds) : dir \in Dirs, ext \in Exts, ds \in TDecls(fi) }
FamTree(m) ==
  (IF m >= 2 THEN { <<a, b>> : a \in TFiles(1), b \in TFiles(2) } ELSE {}) \cup
  (IF m >= 3 THEN { <<a, b, c>> : a \in TFiles(1), b \in TFiles(2), c \in TFiles(3) } ELSE {})

Insert(q, at, x) == SubSeq(q, 1, at - 1) \o <<x>> \o SubSeq(q, at, Len(q))
Big(form, n) ==
  CASE form = "raw"   -> [F1(1, 9, <<>>) EXCEPT !.kind = "var", !.wide = n]
    [] form = "line"  -> [F1(1, 9, <<>>) EXCEPT !.doc = << <<"T", "", n>>, <<"R", Sym(1, 9, "d", 2)>> >>]
    [] form = "block" -> [F1(1, 9, <<>>) EXCEPT !.doc = << <<"K", Sym(1, 9, "d", 1), n>>, <<"R", Sym(1, 9, "d", 2)>> >>]
FamSize(ns) ==
  { << MkFile(1, <<"a">>, ".go", "a", <<>>, Insert(<<F1(1, 1, <<"R">>), F1(1, 2, <<"R", "R">>)>>, at, Big(form, n))) >>
      : at \in 1..3, form \in {"raw", "line", "block"}, n \in ns }

\* text: CRLF line ends, a byte-order mark, no newline after the last declaration - around two annotated functions and a var
FamText == { << [MkFile(1, <<"a">>, ".go", "a", <<>>, <<F1(1, 1, <<"T", "R">>), MkDecl(1, 2, "var", <<"R">>, <<>>, <<>>, <<>>), F1(1, 3, <<"R", "D">>)>>)
                   EXCEPT !.text = [eol |-> e, bom |-> b, nonl |-> n]] >> : e \in {"lf", "crlf"}, b \in {0, 1}, n \in {0, 1} }
\* dup: one source symbol annotated on two functions; the same (symbol, function name) pair in two files of one directory
\* (build-variant files) and twice on one function - one entry per annotation each time
SameSym(d, sym) == [d EXCEPT !.doc = [j \in 1..Len(@) |-> <<@[j][1], IF @[j][1] = "R" THEN sym ELSE @[j][2]>>]]
FamDup == { << MkFile(1, <<"a">>, ".go", "a", <<>>, <<SameSym(F1(1, 1, <<"R">>), "runtime.dup"), SameSym(F1(1, 2, <<"R">>), "runtime.dup")>>) >>,
            << MkFile(1, <<"a">>, ".go", "a", <<>>, <<SameSym(F1(1, 1, <<"R">>), "runtime.dup")>>),
               MkFile(2, <<"a">>, ".go", "a", <<>>, <<SameSym(F1(1, 1, <<"R">>), "runtime.dup")>>) >>,
            << MkFile(1, <<>>, ".go", "kernel", <<>>, <<SameSym(F1(1, 1, <<"R", "T", "R">>), "runtime.dup")>>) >> }

Trees(dl, md, mf) == FamDecl(dl) \cup FamFile(md) \cup FamTree(mf) \cup FamSize(Sizes) \cup FamText \cup FamDup

--------------------------------------------------------------------------
(* the design: FindRedirects *)
IsR(ln) == ln[1] = "R"
DAttached(doc) == IF Bug = "FloatingDoc" THEN SelectSeq(doc, LAMBDA ln : ln[1] # "B") ELSE P!Attached(doc)
DAnnots(doc) == LET a == DAttached(doc) IN
                IF Bug = "FirstLineOnly" THEN (IF a # <<>> /\ IsR(a[1]) THEN SelectSeq(a, IsR) ELSE <<>>)
                ELSE SelectSeq(a, IsR)
\* methods are not function declarations: skipped (MethodAsFunc: the design of the pinned tree, which took every ast.FuncDecl
\* and named the destination importpath.Name even for a method)
DIsFunc(d) == d.kind \in (CASE Bug = "VarAccepted" -> {"func", "var", "varfunc", "const"}
                             [] Bug = "MethodAsFunc" -> {"func", "method"}
                             [] OTHER -> {"func"})
DDst(f, d) == IF Bug = "PkgFromClause" THEN Prefix \o "/" \o f.pkg \o "." \o d.name ELSE P!Dst(f.dir, d.name)
DDeclEntries(f, d) ==
  IF ~DIsFunc(d) THEN <<>>
  ELSE LET a == DAnnots(d.doc)  n == Len(a) IN
       IF Bug = "DupPerAnnotation" THEN [i \in 1..(n * n) |-> <<a[((i - 1) % n) + 1][2], DDst(f, d)>>]
       ELSE [i \in 1..n |-> <<a[i][2], DDst(f, d)>>]
DScanned(f) == f.ext = ".go" \/ (Bug = "NoTestFilter" /\ f.ext = "_test.go")
\* declarations visited in source order, rotated by k (k = 0 in the design; the MapOrder mutant picks any k per build,
\* as iteration over a Go map does)
RECURSIVE DDecls(_, _, _)
DDecls(f, k, i) == LET n == Len(f.decls) IN
                   IF i > n THEN <<>> ELSE DDeclEntries(f, f.decls[((i - 1 + k) % n) + 1]) \o DDecls(f, k, i + 1)
RECURSIVE DTree(_, _)
DTree(k, i) == IF i > Len(files) THEN <<>>
               ELSE (IF DScanned(files[i]) /\ files[i].decls # <<>> THEN DDecls(files[i], k, 1) ELSE <<>>) \o DTree(k, i + 1)

RECURSIVE Feed(_, _, _)
Feed(st, fs, i) == IF i > Len(fs) THEN st ELSE Feed(P!Mon(st, [k |-> "file", f |-> fs[i]]).s, fs, i + 1)

Init == /\ files \in Trees(DocLen, MaxDecls, MaxFiles)
        /\ pc = 0 /\ s = Feed(P!S0, files, 1) /\ mismatch = <<>>

Build == /\ pc < NRuns /\ mismatch = <<>>
         /\ \E k \in (IF Bug = "MapOrder" THEN 0..(MaxDecls - 1) ELSE {0}) :
              LET e == [k |-> "build", res |-> "ok", out |-> DTree(k, 1)]
                  m == P!Mon(s, e)
              IN s' = m.s /\ mismatch' = P!FirstFail(pc + 1, m.cs)
         /\ pc' = pc + 1 /\ UNCHANGED files

Next == Build

NoMismatch == mismatch = <<>>
\* leg G: every tree of the scope is written out as a case for the Go harness
EmitCase == (Emit /\ pc = 0) => CSVWrite("%1$s", <<ToJson([files |-> files])>>, IOEnv.CASES)
====
