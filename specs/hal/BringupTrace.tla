---- MODULE BringupTrace ----
(* Trace monitor for C16: events recorded from the real hal.DetectHardware (real kfmt sink,   *)
(* 2047-byte early ring, real tty.VT behind a recorder) are judged by Bringup!Mon.             *)
EXTENDS Integers, Sequences, FiniteSets, TLC, Json, IOUtils, TraceLib
CONSTANT RingCap
B == INSTANCE Bringup
Trace == ndJsonDeserialize(IOEnv.TRACE)

VARIABLES l, s, mismatch
vars == <<l, s, mismatch>>

Init == l = 1 /\ s = B!S0 /\ mismatch = <<>>
Next == /\ l <= Len(Trace) /\ mismatch = <<>>
        /\ l' = l + 1
        /\ LET m == B!Mon(s, Trace[l]) IN s' = m.s /\ mismatch' = FirstFailIn({"C16"}, l, m.cs)
        /\ Report(mismatch')
NoMismatch == mismatch = <<>>
Accepted == TLCGet("stats").diameter - 1 = Len(Trace)
====
