---- MODULE Bringup ----
(***************************************************************************)
(* C16 - device bring-up, property level: a monitor over the events of one   *)
(* DetectHardware run.                                                       *)
(*                                                                          *)
(* Events (one per observable step, in order of occurrence):                 *)
(*  start  drv = registered drivers in registration order                    *)
(*               [id, order, kind in {"tty","cons","other"}, name, msg]      *)
(*  print  from, len = the environment logged injected bytes number         *)
(*               from .. from+len-1 with kfmt.Printf                         *)
(*  probe  id                 the probe function of driver id was invoked    *)
(*  init   id, from, len, ok  DriverInit of id was invoked, wrote len more   *)
(*                            injected bytes to the writer it was given      *)
(*                            (possibly with line feeds) and returned ok     *)
(*  attach tty, cons          AttachTo(cons) was invoked on terminal tty     *)
(*  state  tty, st            SetState(st) was invoked on terminal tty       *)
(*  end    what the HAL considers live and what every terminal received;     *)
(*         (shown, from its Write calls) and HOLDS at the end (held, the     *)
(*         non-blank cells of the real terminal buffer in row-major order);  *)
(*         geom / consGeom = character geometry every terminal is attached   *)
(*         with / every console has at the end (a console with font or logo  *)
(*         support only gets its geometry when the HAL has configured it);   *)
(*         sink = id of the terminal that is the log sink, 0 for the early   *)
(*         ring, -1 for a writer the harness cannot identify (delivery is    *)
(*         then judged by the log check alone)                               *)
(*                                                                          *)
(* The environment only logs bytes >= 128 (`injected` bytes, a serial        *)
(* pattern, so each is identifiable); the HAL's own messages are ASCII and   *)
(* their wording is not part of the property.  `name`/`msg` are the driver's *)
(* name and the message of the error it returns (unique ASCII strings).      *)
(*                                                                          *)
(* Checked: probe order non-decreasing, every driver probed once; a failed   *)
(* driver is never active and is reported; the first successfully            *)
(* initialised console / terminal are the active pair and nothing else is    *)
(* ever attached or activated, and the pair is attached exactly once (a       *)
(* second AttachTo blanks the terminal); the terminal still holds at the end  *)
(* every byte it received; once both exist the terminal is attached to        *)
(* the console, active and the log sink; and the log the terminal received   *)
(* is  Suffix(everything logged before the link, RingCap) \o everything      *)
(* logged after it  -  judged on the injected bytes (exact subsequence       *)
(* equality: each once, in order, later output complete and last), with      *)
(* "nothing may be dropped" whenever fewer than RingCap bytes preceded the   *)
(* first post-link byte.                                                     *)
(***************************************************************************)
EXTENDS Integers, Sequences, FiniteSets, TLC
CONSTANT RingCap

IsInj(b) == b >= 128
Inj(bs) == SelectSeq(bs, IsInj)
Suffix(x, n) == IF Len(x) <= n THEN x ELSE SubSeq(x, Len(x) - n + 1, Len(x))
Range(x) == {x[i] : i \in 1..Len(x)}
Contains(hay, needle) == \E i \in 0..(Len(hay) - Len(needle)) : SubSeq(hay, i + 1, i + Len(needle)) = needle

\* index in bs of the k-th injected byte (0 if there are fewer)
KthInj(bs, k) == LET pos == SelectSeq([i \in 1..Len(bs) |-> i], LAMBDA i : IsInj(bs[i])) IN IF k >= 1 /\ k <= Len(pos) THEN pos[k] ELSE 0

S0 == [drv |-> <<>>, probed |-> <<>>, failed |-> {}, okd |-> {}, actTTY |-> 0, actCons |-> 0, linked |-> FALSE,
       pre |-> <<>>, post |-> <<>>, lateFail |-> {}, lastOrder |-> -1000, nattach |-> 0]

Drv(s, id) == LET S == {i \in 1..Len(s.drv) : s.drv[i].id = id} IN IF S = {} THEN [id |-> 0, order |-> 0, kind |-> "none", name |-> <<>>, msg |-> <<>>]
                                                                       ELSE s.drv[CHOOSE i \in S : TRUE]
\* the injected bytes number from .. from+n-1 of a run (what the environment logs)
InjSeq(from, n) == [i \in 1..n |-> 128 + ((from + i - 1) % 128)]
Log(s, bs) == IF s.linked THEN [s EXCEPT !.post = @ \o bs] ELSE [s EXCEPT !.pre = @ \o bs]

\* the log check on what the sink holds at the end (R = bytes the active terminal received, or the ring if never linked)
LogChecks(s, R) ==
  LET I == s.pre \o s.post
      Ri == Inj(R)
      okSuffix == Len(Ri) >= Len(s.post) /\ Len(Ri) <= Len(I) /\ Ri = Suffix(I, Len(Ri))
      \* an upper bound of the number of bytes that were buffered when the terminal took over
      dhi == IF s.post = <<>> \/ ~okSuffix THEN Len(R) ELSE KthInj(R, Len(Ri) - Len(s.post) + 1) - 1
      complete == dhi < RingCap
      unreported == {d \in s.failed : (complete \/ d \in s.lateFail) /\ ~Contains(R, Drv(s, d).name) /\ ~Contains(R, Drv(s, d).msg)}
  IN << <<"C16", ~okSuffix, <<"log on the sink is not (suffix of what was logged before the link) then (everything logged after): injected bytes logged",
                               Len(I), "of them after the link", Len(s.post), "received", Len(Ri), "first 40 received", SubSeq(Ri, 1, IF Len(Ri) < 40 THEN Len(Ri) ELSE 40)>> >>,
        <<"C16", okSuffix /\ complete /\ Len(Ri) # Len(I),
                 <<"early log lost although fewer than RingCap bytes were buffered: logged", Len(I), "received", Len(Ri), "buffered at most", dhi>> >>,
        <<"C16", unreported # {}, <<"failed driver not reported on the log", unreported>> >> >>

\* ---- the bring-up log, structurally (independent of the HAL's wording).  A driver's name (a unique ASCII string) gets on
\* the log only through the HAL's per-driver line prefix, its error text only through the HAL's failure report.
\*   - a log line names at most one driver, once (a stale or doubled prefix attributes a line to two drivers);
\*   - a driver's error text stands on a line that names no other driver;
\*   - what follows the name on the LAST line of a successfully initialised driver (injected bytes removed) is a success
\*     report; no line of a failed driver may end like that.
\* All three only forbid, so a log truncated at the front by the ring cannot raise a false alarm.
Occ(R, pats) ==      \* <<position, index in pats>> of every occurrence of one of the byte strings pats[i] in R
  LET firsts == {pats[i][1] : i \in {j \in 1..Len(pats) : pats[j] # <<>>}}
      cand == SelectSeq([i \in 1..Len(R) |-> i], LAMBDA i : R[i] \in firsts)
  IN {o \in {<<cand[k], d>> : k \in 1..Len(cand), d \in 1..Len(pats)} :
         pats[o[2]] # <<>> /\ o[1] + Len(pats[o[2]]) - 1 <= Len(R) /\ SubSeq(R, o[1], o[1] + Len(pats[o[2]]) - 1) = pats[o[2]]}
LogStruct(s, R) ==
  LET n == Len(s.drv)
      names == [i \in 1..n |-> s.drv[i].name]
      msgs == [i \in 1..n |-> s.drv[i].msg]
      nl == SelectSeq([i \in 1..Len(R) |-> i], LAMBDA i : R[i] = 10)
      nlset == {nl[i] : i \in 1..Len(nl)}
      LineOf(p) == Cardinality({q \in nlset : q < p})
      EndOf(p) == LET later == {q \in nlset : q > p} IN IF later = {} THEN Len(R) ELSE (CHOOSE q \in later : \A r \in later : q <= r) - 1
      no == Occ(R, names)
      mo == Occ(R, msgs)
      Id(i) == s.drv[i].id
      twice == {o \in no : \E o2 \in no : o2 # o /\ LineOf(o2[1]) = LineOf(o[1])}
      stray == {m \in mo : \E o \in no : LineOf(o[1]) = LineOf(m[1]) /\ o[2] # m[2]}
      Sig(o) == SelectSeq(SubSeq(R, o[1] + Len(names[o[2]]), EndOf(o[1])), LAMBDA b : b < 128)
      okSigs == {Sig(o) : o \in {x \in no : Id(x[2]) \in s.okd /\ \A y \in no : y[2] = x[2] => y[1] <= x[1]}}
      asOk == {o \in no : Id(o[2]) \in s.failed /\ Sig(o) \in okSigs}
  IN << <<"C16", twice # {}, <<"a log line is attributed to more than one driver (or twice): positions / drivers", {<<o[1], Id(o[2])>> : o \in twice}>> >>,
        <<"C16", stray # {}, <<"a failure report stands on a line attributed to another driver", {Id(m[2]) : m \in stray}>> >>,
        <<"C16", asOk # {}, <<"a driver whose initialisation failed is reported like the successful ones", {Id(o[2]) : o \in asOk}>> >> >>

Lookup(pairs, id, dflt) == LET S == {i \in 1..Len(pairs) : pairs[i].id = id} IN IF S = {} THEN dflt ELSE pairs[CHOOSE i \in S : TRUE].v

Mon(s, e) ==
  IF e.k = "start" THEN [s |-> [S0 EXCEPT !.drv = e.drv], cs |-> <<>>]
  ELSE IF e.k = "print" THEN [s |-> Log(s, InjSeq(e.from, e.len)), cs |-> <<>>]
  ELSE IF e.k = "probe" THEN
    LET d == Drv(s, e.id) IN
    [s |-> [s EXCEPT !.probed = Append(@, e.id), !.lastOrder = d.order],
     cs |-> << <<"C16", d.id = 0 \/ e.id \in Range(s.probed), <<"driver probed twice or unknown", e.id>> >>,
               <<"C16", d.id # 0 /\ d.order < s.lastOrder, <<"probe order decreases:", s.lastOrder, "then", d.order, "driver", e.id>> >> >>]
  ELSE IF e.k = "init" THEN
    LET d == Drv(s, e.id)
        s1 == Log(s, InjSeq(e.from, e.len))
        tty == IF e.ok /\ d.kind = "tty" /\ s1.actTTY = 0 THEN e.id ELSE s1.actTTY
        cons == IF e.ok /\ d.kind = "cons" /\ s1.actCons = 0 THEN e.id ELSE s1.actCons
    IN [s |-> [s1 EXCEPT !.actTTY = tty, !.actCons = cons, !.linked = (tty # 0 /\ cons # 0),
                         !.failed = IF e.ok THEN @ ELSE @ \cup {e.id}, !.okd = IF e.ok THEN @ \cup {e.id} ELSE @,
                         !.lateFail = IF ~e.ok /\ s1.linked THEN @ \cup {e.id} ELSE @],
        cs |-> << <<"C16", e.id \notin Range(s.probed), <<"driver initialised without being probed", e.id>> >> >>]
  ELSE IF e.k = "attach" THEN
    [s |-> [s EXCEPT !.nattach = @ + 1],
     cs |-> << <<"C16", ~s.linked \/ e.tty # s.actTTY \/ e.cons # s.actCons,
                 <<"only the first terminal may be attached, to the first console: attach", e.tty, e.cons, "active pair", s.actTTY, s.actCons>> >>,
               <<"C16", s.nattach >= 1,
                 <<"the active pair is linked exactly once: attaching the terminal again discards what it holds; attach number", s.nattach + 1>> >> >>]
  ELSE IF e.k = "state" THEN
    [s |-> s, cs |-> << <<"C16", e.st # 0 /\ (~s.linked \/ e.tty # s.actTTY),
                          <<"a terminal other than the linked first one was activated", e.tty, "active", s.actTTY, s.linked>> >> >>]
  ELSE IF e.k = "end" THEN
    LET R == IF s.linked THEN Lookup(e.shown, s.actTTY, <<>>) ELSE e.ring
        ids == {s.drv[i].id : i \in 1..Len(s.drv)}
    IN [s |-> s,
        cs |-> << <<"C16", Len(s.probed) # Len(s.drv) \/ Range(s.probed) # ids, <<"not every registered driver was probed exactly once", s.probed>> >>,
                  <<"C16", e.activeTTY # s.actTTY, <<"active terminal is not the first one initialised", e.activeTTY, s.actTTY>> >>,
                  <<"C16", e.activeCons # s.actCons, <<"active console is not the first one initialised", e.activeCons, s.actCons>> >>,
                  <<"C16", Range(e.active) \cap s.failed # {}, <<"a driver whose initialisation failed is active", Range(e.active) \cap s.failed>> >>,
                  <<"C16", s.linked /\ (e.sink \notin {s.actTTY, -1} \/ Lookup(e.state, s.actTTY, 0) # 1 \/ Lookup(e.attached, s.actTTY, 0) # s.actCons),
                           <<"terminal not attached / active / log sink after both devices came up: sink", e.sink, "state", e.state, "attached", e.attached>> >>,
                  <<"C16", ~s.linked /\ e.sink # 0, <<"log sink switched although no terminal/console pair exists", e.sink>> >>,
                  <<"C16", \E i \in 1..Len(e.shown) : e.shown[i].id # s.actTTY /\ e.shown[i].v # <<>>,
                           <<"a terminal that is not the active one received log output">> >>,
                  <<"C16", s.linked /\ Inj(Lookup(e.held, s.actTTY, <<>>)) # Inj(R),
                           <<"the active terminal no longer holds the log it received (content discarded after the link): received",
                             Len(Inj(R)), "injected bytes, holds", Len(Inj(Lookup(e.held, s.actTTY, <<>>)))>> >> >>
                  \o LogChecks(s, R) \o LogStruct(s, R)
                  \o << <<"C16", s.linked /\ (Lookup(e.geom, s.actTTY, <<0, 0>>) # Lookup(e.consGeom, s.actCons, <<-1, -1>>)
                                             \/ Lookup(e.geom, s.actTTY, <<0, 0>>)[1] = 0 \/ Lookup(e.geom, s.actTTY, <<0, 0>>)[2] = 0),
                           <<"the terminal is not attached with the console's final character geometry (font / logo configured after the link?): terminal",
                             Lookup(e.geom, s.actTTY, <<0, 0>>), "console", Lookup(e.consGeom, s.actCons, <<-1, -1>>)>> >> >>]
  ELSE IF e.k = "panic" THEN [s |-> s, cs |-> << <<"C16", TRUE, <<"DetectHardware panicked">> >> >>]
  ELSE [s |-> S0, cs |-> <<>>]          \* scenario / reset
====
