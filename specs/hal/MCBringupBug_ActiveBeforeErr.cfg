CONSTANTS MaxDrv = 2  MaxDrvRev = 2  MaxFont = 2  SayLens = {0, 1}  MaxPrints = 1  MaxPrints3 = 1  PrintLens = {1, 3}  RingCap = 6  Bug = "ActiveBeforeErr"  Emit = FALSE
CONSTANT Families = {"sort", "outcome", "pairs"}
CONSTANT Orders <- MCOrders3
INIT Init
NEXT Next
INVARIANT NoMismatch
INVARIANT EmitCase
CHECK_DEADLOCK FALSE
