---- MODULE MCBringup ----
(* cfg files cannot hold negative numbers or tuples *)
EXTENDS BringupModel
MCOrders4 == {-128, -127, 0, 127}
MCOrders3 == {-128, 0, 127}
====
