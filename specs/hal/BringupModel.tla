---- MODULE BringupModel ----
(***************************************************************************)
(* Design model of hal.DetectHardware / probe / onDriverInit / onConsoleInit *)
(* / linkTTYToConsole (hal.go) together with kfmt's output sink and early    *)
(* ring (abstract FIFO of RingCap bytes, see kfmt/RingBuf.tla) and the       *)
(* per-driver PrefixWriter.  Init chooses the registered drivers             *)
(* [order, kind, probeOk, initOk, say] in registration order (so every       *)
(* permutation is a case); Print may happen before any driver step and after *)
(* the last.  Each action produces the events the harness would log and      *)
(* Bringup!Mon - the operator that judges traces of the real hal - judges    *)
(* them: NoMismatch is C16 for the design.                                   *)
(*                                                                          *)
(* HAL messages are modelled as ASCII bytes: prefix = <<name>>, "initialized"*)
(* = <<2>>, "init failed: msg" = <<3, msg>> with name = 10 + id, msg = 20 +  *)
(* id.  Injected bytes are 128 + serial.                                     *)
(*                                                                          *)
(* Design mutants: NoSort, ActiveBeforeErr, LaterConsoleWins, LaterTTYWins,  *)
(* NoDrain, NoReport, DrainTwice, Relink, LinkBeforeFont (terminal attached   *)
(* before the console's font/logo are configured), StalePrefix (log prefix    *)
(* of a failed driver sticks to the next driver's line), FailSaysOk.          *)
(***************************************************************************)
EXTENDS Integers, Sequences, FiniteSets, TLC, Json, CSV, IOUtils, TraceLib
CONSTANTS MaxDrv, MaxDrvRev, MaxFont, Orders, SayLens,
          MaxPrints, MaxPrints3,   \* log chunks per behaviour with <= 2 / >= 3 registered drivers
          PrintLens, Families, RingCap, Bug, Emit

B == INSTANCE Bringup

VARIABLES reg,            \* registered drivers, registration order
          list, idx,      \* sorted list and position of the probe loop
          phase,          \* "boot" | "probing" | "ended"
          sink, ring, shown, held, actTTY, actCons, active, attached, tstate, cgeom, tgeom,
          serial, nprints, slots,
          s, mismatch
vars == <<reg, list, idx, phase, sink, ring, shown, held, actTTY, actCons, active, attached, tstate, cgeom, tgeom, serial, nprints, slots, s, mismatch>>

Kinds == {"tty", "cons", "other"}
Rec(o, k, p, i, y) == [order |-> o, kind |-> k, probeOk |-> p, initOk |-> i, say |-> y, font |-> FALSE]
\* a console with font / logo support has no character geometry until the HAL has configured it
FontCons(i) == [order |-> 0, kind |-> "cons", probeOk |-> TRUE, initOk |-> i, say |-> 0, font |-> TRUE]
OrdSeq == <<-128, -127, 0, 127>>
\* family "sort": any orders, every driver comes up
FamSort(n) == [1..n -> {Rec(o, k, TRUE, TRUE, 0) : o \in Orders, k \in Kinds}]
\* family "outcome": registration order = detection order, every kind / outcome / chattiness
FamOutcome(n) == {q \in [1..n -> {Rec(0, "other", FALSE, TRUE, 0)} \cup {Rec(0, k, TRUE, i, y) : k \in Kinds, i \in BOOLEAN, y \in SayLens}] : TRUE}
\* families "outcomeRev" / "pairsRev": the same driver sets registered in the opposite of their detection order
\* family "font": terminals, consoles with and without font support and a failing driver, in detection and reverse order
FamFont(n) == [1..n -> {Rec(0, "tty", TRUE, TRUE, 0), Rec(0, "cons", TRUE, TRUE, 0), FontCons(TRUE), FontCons(FALSE), Rec(0, "other", TRUE, FALSE, 1)}]
\* family "pairs": consoles and terminals only, any of them failing
FamPairs(n) == [1..n -> {Rec(0, k, TRUE, i, 0) : k \in {"tty", "cons"}, i \in BOOLEAN}]
WithOrder(q) == [i \in 1..Len(q) |-> [q[i] EXCEPT !.order = OrdSeq[i]]]
WithOrderRev(q) == [i \in 1..Len(q) |-> [q[i] EXCEPT !.order = OrdSeq[Len(q) + 1 - i]]]    \* registered last-to-first
Regs(d) == (IF "sort" \in Families THEN UNION {FamSort(n) : n \in 0..MaxDrv} ELSE {})
           \cup (IF "outcome" \in Families THEN UNION {{WithOrder(q) : q \in FamOutcome(n)} : n \in 0..MaxDrv} ELSE {})
           \cup (IF "outcomeRev" \in Families THEN UNION {{WithOrderRev(q) : q \in FamOutcome(n)} : n \in 2..MaxDrvRev} ELSE {})
           \cup (IF "pairsRev" \in Families THEN UNION {{WithOrderRev(q) : q \in FamPairs(n)} : n \in 3..3} ELSE {})
           \cup (IF "font" \in Families THEN UNION {{WithOrder(q) : q \in FamFont(n)} \cup {WithOrderRev(q) : q \in FamFont(n)} : n \in 2..MaxFont} ELSE {})
           \cup (IF "pairs" \in Families THEN UNION {{WithOrder(q) : q \in FamPairs(n)} : n \in 3..(MaxDrv + 1)} ELSE {})

Name(id) == <<10 + id>>
Msg(id) == <<20 + id>>
EvDrv == [i \in 1..Len(reg) |-> [id |-> i, order |-> reg[i].order, kind |-> reg[i].kind, name |-> Name(i), msg |-> Msg(i)]]

Init == /\ reg \in Regs(0)
        /\ list = <<>> /\ idx = 0 /\ phase = "boot"
        /\ sink = 0 /\ ring = <<>> /\ shown = [i \in 1..Len(reg) |-> <<>>] /\ held = [i \in 1..Len(reg) |-> <<>>]
        /\ actTTY = 0 /\ actCons = 0 /\ active = <<>> /\ attached = [i \in 1..Len(reg) |-> 0] /\ tstate = [i \in 1..Len(reg) |-> 0]
        /\ cgeom = [i \in 1..Len(reg) |-> IF reg[i].font THEN 0 ELSE 1] /\ tgeom = [i \in 1..Len(reg) |-> 0]
        /\ serial = 0 /\ nprints = 0 /\ slots = <<>>
        /\ s = B!Mon(B!S0, [k |-> "start", drv |-> EvDrv]).s /\ mismatch = <<>>

\* monitor fold over the events of one step
RECURSIVE MonSeq(_, _, _, _)
MonSeq(st, evs, i, cs) == IF i > Len(evs) THEN [s |-> st, cs |-> cs]
                          ELSE LET m == B!Mon(st, evs[i]) IN MonSeq(m.s, evs, i + 1, cs \o m.cs)
Judge(evs) == LET m == MonSeq(s, evs, 1, <<>>) IN s' = m.s /\ mismatch' = FirstFailIn({"C16"}, Len(slots) + idx, m.cs)

\* kfmt output path on a state record x = [sink, ring, shown]
LogW(x, bs) == IF x.sink = 0 THEN [x EXCEPT !.ring = B!Suffix(@ \o bs, RingCap)]
               ELSE [x EXCEPT !.shown[x.sink] = @ \o bs, !.held[x.sink] = @ \o bs]
Bytes(k, from) == B!InjSeq(from, k)

\* kfmt.Printf by the environment, before driver idx+1 is probed (or after the last one)
EnvPrint(k) ==
  /\ phase \in {"boot", "probing"} /\ nprints < (IF Len(reg) <= 2 THEN MaxPrints ELSE MaxPrints3)
  /\ LET bs == Bytes(k, serial)
         x == LogW([sink |-> sink, ring |-> ring, shown |-> shown, held |-> held], bs)
     IN /\ ring' = x.ring /\ shown' = x.shown /\ held' = x.held
        /\ Judge(<<[k |-> "print", from |-> serial, len |-> k]>>)
  /\ serial' = serial + k /\ nprints' = nprints + 1
  /\ slots' = Append(slots, [at |-> IF phase = "boot" THEN 0 ELSE idx + 1, len |-> k])
  /\ UNCHANGED <<reg, list, idx, phase, sink, actTTY, actCons, active, attached, tstate, cgeom, tgeom>>

\* DetectHardware: sort.Sort(drivers) - any arrangement that is sorted by detection order
IsPerm(p) == \A i \in 1..Len(reg) : \E j \in 1..Len(reg) : p[j] = i
SortedPerms == {p \in [1..Len(reg) -> 1..Len(reg)] : IsPerm(p) /\ \A i \in 1..(Len(reg) - 1) : reg[p[i]].order <= reg[p[i + 1]].order}
Sort ==
  /\ phase = "boot"
  /\ list' \in (IF Bug = "NoSort" THEN {[i \in 1..Len(reg) |-> i]} ELSE SortedPerms)
  /\ phase' = "probing" /\ idx' = 0
  /\ UNCHANGED <<reg, sink, ring, shown, held, actTTY, actCons, active, attached, tstate, cgeom, tgeom, serial, nprints, slots, s, mismatch>>

\* linkTTYToConsole on x = [sink, ring, shown, attached, tstate] with the pair (t, c): new x and events
Link(x, t, c) ==
  LET drained == IF Bug = "NoDrain" THEN <<>> ELSE IF Bug = "DrainTwice" THEN x.ring \o x.ring ELSE x.ring
  IN \* tty.VT.AttachTo allocates a blank buffer: whatever the terminal held is gone
     [x EXCEPT !.tgeom[t] = x.cgeom[c], !.attached[t] = c, !.sink = t, !.shown[t] = @ \o drained, !.held[t] = drained, !.ring = <<>>, !.tstate[t] = 1]
LinkEvs(t, c) == <<[k |-> "attach", tty |-> t, cons |-> c], [k |-> "state", tty |-> t, st |-> 1]>>

\* one iteration of the probe loop
Step ==
  /\ phase = "probing" /\ idx < Len(list)
  /\ LET d == list[idx + 1]
         r == reg[d]
         x0 == [sink |-> sink, ring |-> ring, shown |-> shown, held |-> held, cgeom |-> cgeom, tgeom |-> tgeom, attached |-> attached, tstate |-> tstate,
                actTTY |-> actTTY, actCons |-> actCons, active |-> active]
         pe == [k |-> "probe", id |-> d]
     IN IF ~r.probeOk
        THEN /\ Judge(<<pe>>)
             /\ UNCHANGED <<sink, ring, shown, held, actTTY, actCons, active, attached, tstate, cgeom, tgeom, serial>>
        ELSE LET say == Bytes(r.say, serial)
                 \* the PrefixWriter's sink is fetched before DriverInit
                 body == say \o (IF r.initOk \/ Bug = "FailSaysOk" THEN <<2>> ELSE IF Bug = "NoReport" THEN <<>> ELSE <<3>> \o Msg(d))
                 stale == IF Bug = "StalePrefix" /\ idx > 0 /\ reg[list[idx]].probeOk /\ ~reg[list[idx]].initOk THEN Name(list[idx]) ELSE <<>>
                 line == IF body = <<>> THEN <<>> ELSE stale \o Name(d) \o body \o <<10>>   \* prefix with the first byte of a line; reports end the line
                 x1 == LogW(x0, line)
                 ie == [k |-> "init", id |-> d, from |-> serial, len |-> r.say, ok |-> r.initOk]
                 x2 == IF ~r.initOk THEN (IF Bug = "ActiveBeforeErr" THEN [x1 EXCEPT !.active = Append(@, d)] ELSE x1)
                       ELSE [x1 EXCEPT !.active = Append(@, d)]
                 \* onDriverInit
                 res ==
                   IF ~r.initOk THEN [x |-> x2, evs |-> <<>>]
                   ELSE IF r.kind = "cons"
                   THEN IF x2.actCons # 0 /\ Bug # "LaterConsoleWins" THEN [x |-> x2, evs |-> <<>>]
                        ELSE LET x3 == [x2 EXCEPT !.actCons = d]
                                 cfg(y) == [y EXCEPT !.cgeom[d] = IF r.font THEN 2 ELSE @]      \* SetLogo / SetFont give the console its geometry
                             IN IF x3.actTTY # 0
                                THEN [x |-> IF Bug = "LinkBeforeFont" THEN cfg(Link(x3, x3.actTTY, d)) ELSE Link(cfg(x3), x3.actTTY, d),
                                      evs |-> LinkEvs(x3.actTTY, d)]
                                ELSE [x |-> cfg(x3), evs |-> <<>>]
                   ELSE IF r.kind = "tty"
                   THEN IF x2.actTTY # 0 /\ Bug = "Relink"       \* the active pair is linked again for every further terminal
                        THEN (IF x2.actCons # 0 THEN [x |-> Link(x2, x2.actTTY, x2.actCons), evs |-> LinkEvs(x2.actTTY, x2.actCons)]
                              ELSE [x |-> x2, evs |-> <<>>])
                        ELSE IF x2.actTTY # 0 /\ Bug # "LaterTTYWins" THEN [x |-> x2, evs |-> <<>>]
                        ELSE LET x3 == [x2 EXCEPT !.actTTY = d] IN
                             IF x3.actCons # 0 THEN [x |-> Link(x3, d, x3.actCons), evs |-> LinkEvs(d, x3.actCons)] ELSE [x |-> x3, evs |-> <<>>]
                   ELSE [x |-> x2, evs |-> <<>>]
             IN /\ sink' = res.x.sink /\ ring' = res.x.ring /\ shown' = res.x.shown /\ held' = res.x.held /\ attached' = res.x.attached
                /\ cgeom' = res.x.cgeom /\ tgeom' = res.x.tgeom
                /\ tstate' = res.x.tstate /\ actTTY' = res.x.actTTY /\ actCons' = res.x.actCons /\ active' = res.x.active
                /\ serial' = serial + r.say
                /\ Judge(<<pe, ie>> \o res.evs)
  /\ idx' = idx + 1
  /\ UNCHANGED <<reg, list, phase, nprints, slots>>

\* the harness's final observation
End ==
  /\ phase = "probing" /\ idx = Len(list)
  /\ LET pairs(f) == [i \in 1..Len(reg) |-> [id |-> i, v |-> f[i]]]
         e == [k |-> "end", activeTTY |-> actTTY, activeCons |-> actCons, active |-> active, sink |-> sink,
               shown |-> pairs(shown), held |-> pairs(held), ring |-> ring,
               geom |-> [i \in 1..Len(reg) |-> [id |-> i, v |-> <<tgeom[i], tgeom[i]>>]], consGeom |-> [i \in 1..Len(reg) |-> [id |-> i, v |-> <<cgeom[i], cgeom[i]>>]], state |-> pairs(tstate), attached |-> pairs(attached)]
     IN Judge(<<e>>)
  /\ phase' = "ended"
  /\ UNCHANGED <<reg, list, idx, sink, ring, shown, held, actTTY, actCons, active, attached, tstate, cgeom, tgeom, serial, nprints, slots>>

Next == /\ mismatch = <<>>
        /\ \/ \E k \in PrintLens : EnvPrint(k)
           \/ Sort \/ Step \/ End

NoMismatch == mismatch = <<>>
\* leg G: every complete behaviour is written out as a scenario (inputs only) for the Go harness
EmitCase == (Emit /\ phase = "ended" /\ mismatch = <<>>) =>
              CSVWrite("%1$s", <<ToJson([drv |-> reg, prints |-> slots])>>, IOEnv.CASES)
====
