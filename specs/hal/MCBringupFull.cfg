CONSTANTS MaxDrv = 3  MaxDrvRev = 2  MaxFont = 3  SayLens = {0, 1}  MaxPrints = 2  MaxPrints3 = 1  PrintLens = {1, 3}  RingCap = 6  Bug = ""  Emit = TRUE
CONSTANT Families = {"sort", "outcome", "pairs", "outcomeRev", "pairsRev", "font"}
CONSTANT Orders <- MCOrders4
INIT Init
NEXT Next
INVARIANT NoMismatch
INVARIANT EmitCase
CHECK_DEADLOCK FALSE
