CONSTANTS MaxOps = 1  Bug = "PackWideMaskZero"  Emit = FALSE
CONSTANT Geoms <- MCFewG
CONSTANT Args <- MCArgsH
CONSTANT Chars <- MCChars
CONSTANT ColPairs <- MCColPairs
CONSTANT FillCols <- MCFillCols
CONSTANT VgaCols <- MCVgaCols
CONSTANT VgaFill <- MCVgaFill
INIT Init
NEXT Next
INVARIANT NoMismatch
INVARIANT Tracked
INVARIANT EmitGeom
INVARIANT EmitCalls
CHECK_DEADLOCK FALSE
