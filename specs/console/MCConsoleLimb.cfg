CONSTANTS MaxOps = 1  Bug = ""  Emit = TRUE
CONSTANT Geoms <- MCFewG
CONSTANT Args <- MCArgsLimb
CONSTANT Chars <- MCChars
CONSTANT ColPairs <- MCColPairs
CONSTANT FillCols <- MCFillCols
CONSTANT VgaCols <- MCVgaCols
CONSTANT VgaFill <- MCVgaFill
INIT Init
NEXT Next
INVARIANT NoMismatch
INVARIANT Tracked
INVARIANT EmitGeom
INVARIANT EmitCalls
CHECK_DEADLOCK FALSE
