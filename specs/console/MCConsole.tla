---- MODULE MCConsole ----
(* Small-scope instances of ConsoleModel (DESIGN 4.17): grids up to 3x3 cells (text console up to 4x3),  *)
(* synthetic fonts 8x2 and 9x2 (one and two bytes per glyph row), pitch = visible row + 3, a few spare   *)
(* pixel columns / one spare pixel row, logo heights 0 and 1, depths 8 and 16 (plus 15, 24 and 32 on a   *)
(* 2x2 grid), arguments from {0,1,2,3,4,2^31,2^32-2,2^32-1}.                                             *)
EXTENDS ConsoleModel

MCArgs     == {<<0, 0>>, <<0, 1>>, <<0, 2>>, <<0, 3>>, <<0, 4>>, <<32768, 0>>, <<65535, 65534>>, <<65535, 65535>>}
\* values whose limbs disagree about being in range (65536, 65538, 131073: a valid-looking low limb under a non-zero
\* high limb; 65535: a full low limb), explored on a few geometries
MCArgsLimb == {<<0, 1>>, <<0, 2>>, <<1, 0>>, <<1, 2>>, <<2, 1>>, <<0, 65535>>}
MCArgsQ    == {<<0, 0>>, <<0, 1>>, <<0, 2>>, <<0, 3>>, <<32768, 0>>, <<65535, 65534>>, <<65535, 65535>>}
MCArgsH    == {<<0, 0>>, <<0, 1>>, <<0, 2>>, <<65535, 65535>>}
MCArgsHist == {<<0, 0>>, <<0, 1>>, <<65535, 65535>>}
MCChars    == {0, 1, 255}
MCColPairs == {<<1, 2>>, <<200, 7>>}
MCFillCols == {<<0, 9>>}
\* text console colours: palette boundary 15/16 and far out of range (Write replaces > 15 by the default colour)
MCVgaCols  == {<<7, 1>>, <<2, 15>>, <<15, 0>>, <<16, 1>>, <<7, 16>>, <<17, 255>>, <<128, 14>>, <<0, 128>>, <<255, 7>>, <<14, 17>>}
MCVgaFill  == {<<14, 15>>, <<16, 255>>}
MCVgaColsH == {<<7, 1>>, <<16, 15>>}                \* depth-2 histories

\* synthetic font: 256 glyphs of gh rows, bpr bytes per row, position-dependent bits
Fd(gw, gh) == LET bpr == (gw + 7) \div 8 IN [i \in 1..(256 * gh * bpr) |-> (i * 73 + (i \div 7) * 19 + 41) % 256]
Pal == [i \in 1..256 |-> <<(i * 7 + 3) % 256, (i * 13 + 5) % 256, (i * 29 + 11) % 256>>]
L8   == <<0, 0, 0, 0, 0, 0>>
L555 == <<10, 5, 5, 5, 0, 5>>
L565 == <<11, 5, 5, 6, 0, 5>>
L888 == <<16, 8, 8, 8, 0, 8>>
LBGR == <<0, 8, 8, 8, 16, 8>>
L10  == <<20, 10, 10, 10, 0, 10>>          \* 2:10:10:10, fields wider than the 8-bit palette components
LG0  == <<11, 5, 5, 0, 0, 5>>              \* a component without bits

\* cols x rows cells of a gw x 2 font, xw spare pixel columns, xh spare pixel rows, pad bytes of row padding
FbP(id, cols, rows, gw, bpp, ci, offY, xw, xh, pad) ==
  LET w == cols * gw + xw  B == (bpp + 1) \div 8 IN
  [id |-> id, cons |-> "fb", w |-> w, h |-> offY + rows * 2 + xh, pitch |-> w * B + pad, bpp |-> bpp, ci |-> ci,
   gw |-> gw, gh |-> 2, bpr |-> (gw + 7) \div 8, offY |-> offY, clear |-> 0, dfg |-> 7, dbg |-> 0, fd |-> Fd(gw, 2), pal |-> Pal]
Fb(id, cols, rows, gw, bpp, ci, offY, xw, xh) == FbP(id, cols, rows, gw, bpp, ci, offY, xw, xh, 3)
Vga(id, cols, rows) ==
  [id |-> id, cons |-> "vga", w |-> cols, h |-> rows, pitch |-> cols, bpp |-> 0, ci |-> L8,
   gw |-> 1, gh |-> 1, bpr |-> 0, offY |-> 0, clear |-> 32, dfg |-> 7, dbg |-> 0, fd |-> <<>>, pal |-> <<>>]

\* edges of the quantifier: grids without cells (framebuffer narrower than a glyph; no room for a text line below the
\* logo; logo filling the whole framebuffer; text consoles with 0 columns / 0 rows), mask fields of 0 and of 10 bits,
\* pitch equal to the row size, nothing spare at all, the widest font (16 pixels, mask walk ends on a byte boundary)
MCEdgeG == {Fb(87, 0, 2, 8, 8, L8, 0, 5, 0), Fb(88, 2, 0, 9, 16, L565, 1, 3, 1), Fb(89, 2, 0, 8, 8, L8, 1, 0, 0),
            Fb(90, 2, 2, 8, 32, L10, 0, 3, 1), Fb(91, 2, 2, 9, 16, LG0, 1, 3, 0),
            FbP(92, 2, 2, 9, 16, L565, 1, 3, 1, 0), FbP(93, 3, 1, 8, 24, L888, 0, 0, 0, 0), Fb(94, 2, 2, 16, 8, L8, 1, 1, 1),
            Vga(120, 0, 3), Vga(121, 2, 0)}
\* every grid 1..3 x 1..3, both fonts, depths 8 and 16, logo 0/1 (ids 1..72; the full scope takes the 36 of them in
\* which the logo height alternates with font, depth and grid parity)
GridFb(cols, rows, gi, bi, offY) ==
  Fb(((((cols - 1) * 3 + rows - 1) * 2 + gi) * 2 + bi) * 2 + offY + 1, cols, rows, IF gi = 0 THEN 8 ELSE 9,
     IF bi = 0 THEN 8 ELSE 16, IF bi = 0 THEN L8 ELSE L565, offY,
     IF (cols + rows) % 2 = 0 THEN 0 ELSE 3, IF rows % 2 = 1 THEN 1 ELSE 0)
MCFullG == {GridFb(c, r, gi, bi, (gi + bi + c + r) % 2) : c \in 1..3, r \in 1..3, gi \in 0..1, bi \in 0..1}
             \cup {Fb(81, 2, 2, 9, 15, L555, 1, 3, 1), Fb(82, 2, 2, 9, 24, L888, 1, 3, 1), Fb(83, 2, 2, 8, 32, L888, 0, 0, 1),
                   Fb(84, 2, 1, 9, 24, LBGR, 0, 2, 0), Fb(85, 3, 2, 8, 15, L555, 0, 1, 0), Fb(86, 1, 2, 9, 32, LBGR, 1, 5, 0)}
             \cup MCEdgeG
             \cup {Vga(100 + (c - 1) * 3 + r, c, r) : c \in 1..4, r \in 1..3}
MCQuickG == {GridFb(2, 2, 1, 1, 1), GridFb(3, 2, 0, 0, 0), Fb(81, 2, 2, 9, 15, L555, 1, 3, 1), Vga(112, 4, 3)}
\* design mutants and histories: a handful of geometries is enough
MCFewG == {GridFb(2, 2, 1, 1, 1), GridFb(3, 2, 1, 0, 1), Fb(81, 2, 2, 9, 15, L555, 1, 3, 1), Vga(112, 4, 3),
           Fb(88, 2, 0, 9, 16, L565, 1, 3, 1), Fb(87, 0, 2, 8, 8, L8, 0, 5, 0), Fb(90, 2, 2, 8, 32, L10, 0, 3, 1), Vga(120, 0, 3)}

MCHistG == {GridFb(2, 2, 1, 1, 1), Fb(85, 3, 2, 8, 15, L555, 0, 1, 0), Vga(112, 4, 3)}
====
