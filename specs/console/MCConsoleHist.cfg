CONSTANTS MaxOps = 2  Bug = ""  Emit = FALSE
CONSTANT Geoms <- MCHistG
CONSTANT Args <- MCArgsHist
CONSTANT Chars <- MCChars
CONSTANT ColPairs <- MCColPairs
CONSTANT FillCols <- MCFillCols
CONSTANT VgaCols <- MCVgaCols
CONSTANT VgaFill <- MCVgaFill
INIT Init
NEXT Next
INVARIANT NoMismatch
INVARIANT Tracked
INVARIANT EmitGeom
INVARIANT EmitCalls
CHECK_DEADLOCK FALSE
