---- MODULE Console ----
(***************************************************************************)
(* C19: console drivers paint exactly the addressed cells, never outside   *)
(* the framebuffer.                                                        *)
(*                                                                         *)
(* The property is written once, as a *monitor*: operators that take the   *)
(* monitor state `s` (geometry + current buffer content, one sequence per  *)
(* pixel/cell row, padding included) and one observed event `e` and return *)
(* the next monitor state plus a diagnosis when the event is not allowed.  *)
(* The same operators judge (a) the design model ConsoleModel (byte-level  *)
(* transcription of both drivers, explored exhaustively by TLC in a small  *)
(* scope) and (b) traces recorded from the real Go package (ConsoleTrace). *)
(*                                                                         *)
(* Two consoles share one description.  A buffer is h rows of `pitch`      *)
(* elements; the first `rowB` elements of a row are visible, the rest is   *)
(* padding.  The grid has cols x rows cells; a cell covers gh buffer rows   *)
(* and gw*Bpp elements, below offY reserved (logo) rows.                   *)
(*   fb  : element = byte,   Bpp = bytes per pixel, gw x gh = glyph size   *)
(*   vga : element = 16-bit text cell (attr*256 + ch), Bpp = gw = gh = 1,  *)
(*         offY = 0, pitch = rowB = cols                                   *)
(*                                                                         *)
(* Events (k = kind); x y w h n are 32-bit words <<hi, lo>> (16-bit limbs) *)
(*  init   cons w h pitch bpp ci gw gh bpr offY clear dfg dbg fd pal rows cols nrows mapped fblen *)
(*  write  ch fg bg x y      res d guard                                   *)
(*  fill   x y w h fg bg     res d guard                                   *)
(*  scroll dir n             res d guard                                   *)
(*  chk    rows              full checkpoint of the buffer                 *)
(*  reset                    end of one case                               *)
(* res: "ok" | "panic" | "hang".  d: the DIFF of the buffer caused by the  *)
(* call, one span <<row, col, values>> (0-based) per changed row running   *)
(* from the first to the last changed element of that row (so everything   *)
(* outside the spans kept its value and the spans give the new values).    *)
(* guard: number of bytes that changed before the buffer or behind         *)
(* height*pitch (watched up to a page past the next page boundary; the      *)
(* length the driver gave its slice - fblen - is logged, never assumed).    *)
(* The font data fd and the palette pal of a case are not copied into the  *)
(* monitor state: Mon takes the init event of the current case as `big`.   *)
(*                                                                         *)
(* Only cells are governed by the statement: visible elements that belong   *)
(* to no cell (margin right of the last whole cell column, pixel rows below  *)
(* the last whole text line) may change or not in any operation (Free).      *)
(* Logo rows, row padding and guard elements must never change.              *)
(* Pixel values: a colour index is packed with the colour masks ci =       *)
(* <<rpos, rsize, gpos, gsize, bpos, bsize>>.  Only bits covered by a mask *)
(* are constrained (bit 15 of a 15-bpp pixel and the X byte of an XRGB      *)
(* pixel are don't-care bits of a painted pixel).  A field narrower than 8  *)
(* bits holds the top bits of the 8-bit component; in a field wider than 8  *)
(* bits the component is left-justified and the low bits are don't-care.    *)
(* A grid without cells (framebuffer narrower than a glyph, or no room for  *)
(* a text line below the logo) admits no change by Write or Fill.            *)
(*                                                                         *)
(* Named deviations (DESIGN 2.3): a rule-shaped finding that is recorded   *)
(* rather than repaired is a member of Devs; the strict rule reports it    *)
(* with a diagnosis whose first element is "Dev_<name>", and with the name *)
(* in Devs the deviating behaviour is accepted.                            *)
(***************************************************************************)
EXTENDS Integers, Sequences, FiniteSets, Bitwise, TLC
CONSTANTS Devs

W32 == INSTANCE Word WITH LimbBits <- 16, NLimbs <- 2
P2 == <<1, 2, 4, 8, 16, 32, 64, 128, 256, 512, 1024, 2048, 4096, 8192, 16384, 32768, 65536>>
Pow2(n) == P2[n + 1]                                                          \* n <= 16 is all that is needed
WNat(n) == W32!FromNat(n)

(* ---- 32-bit arguments: mathematical comparison, clamping and clipping (no wrap) ---- *)
InGrid(a, max)      == ~W32!IsZero(a) /\ W32!Le(a, WNat(max))                  \* 1 <= a <= max
ClampOrigin(a, max) == IF W32!IsZero(a) THEN 1 ELSE IF W32!Le(WNat(max), a) THEN max ELSE W32!ToNat(a)
ClipExtent(a, room) == IF W32!Lt(WNat(room), a) THEN room ELSE W32!ToNat(a)

(* ---- geometry ---- *)
IsFb(g) == g.cons = "fb"
GridCols(e) == e.w \div e.gw
GridRows(e) == (e.h - e.offY) \div e.gh

\* bits of (val << pos) that land in byte k (k = 0 is the least significant byte of the pixel); val < 2^16
CompByte(val, pos, k) ==
  LET lo == 8 * k IN
  IF pos >= lo + 8 THEN 0
  ELSE IF pos >= lo THEN (val * Pow2(pos - lo)) % 256
  ELSE IF lo - pos >= 16 THEN 0
  ELSE (val \div Pow2(lo - pos)) % 256
\* an 8-bit colour component in a field of `size` bits: the top bits of the component for narrow fields
\* (v >> (8 - size)); left-justified in a field wider than 8 bits (the low size-8 bits are not constrained)
Scale(v, size) == IF size > 8 THEN v * Pow2(size - 8) ELSE v \div Pow2(8 - size)
Field(size)    == IF size > 8 THEN 255 * Pow2(size - 8) ELSE Pow2(size) - 1      \* the constrained bits of a field
PackByte(ci, rgb, k) == (CompByte(Scale(rgb[1], ci[2]), ci[1], k) | CompByte(Scale(rgb[2], ci[4]), ci[3], k))
                        | CompByte(Scale(rgb[3], ci[6]), ci[5], k)
MaskByte(ci, k) == (CompByte(Field(ci[2]), ci[1], k) | CompByte(Field(ci[4]), ci[3], k))
                   | CompByte(Field(ci[6]), ci[5], k)

\* the geometry record the monitor keeps (derived values computed once per case); the bulky constants of a
\* case (font data fd, palette pal) stay in its init event, which the caller passes along as `big`
Geo(e) ==
  LET fb  == e.cons = "fb"
      Bpp == IF fb THEN (e.bpp + 1) \div 8 ELSE 1
      msk == IF ~fb THEN <<65535>> ELSE IF e.bpp = 8 THEN <<255>> ELSE [k \in 1..Bpp |-> MaskByte(e.ci, k - 1)]
  IN [cons |-> e.cons, w |-> e.w, h |-> e.h, pitch |-> e.pitch, bpp |-> e.bpp, ci |-> e.ci,
      gw |-> e.gw, gh |-> e.gh, bpr |-> e.bpr, offY |-> e.offY, clear |-> e.clear, dfg |-> e.dfg, dbg |-> e.dbg,
      Bpp |-> Bpp, rowB |-> e.w * Bpp, gridB |-> GridCols(e) * e.gw * Bpp, cols |-> GridCols(e), rows |-> GridRows(e),
      mask |-> msk, full |-> \A k \in 1..Bpp : msk[k] = (IF fb THEN 255 ELSE 65535)]

\* the elements of one painted pixel / text cell
Pack(g, ci) == IF ~IsFb(g) THEN <<ci>>                                      \* vga: caller passes the cell value
               ELSE IF g.bpp = 8 THEN <<ci>>
               ELSE [k \in 1..g.Bpp |-> PackByte(g.ci, g.pal[ci + 1], k - 1)]
ElemOK(v, want, m, full) == IF full THEN v = want ELSE (v & m) = (want & m)

\* glyph bit of character ch at glyph row rr, pixel px (most significant bit first, bpr bytes per row)
GlyphBit(g, ch, rr, px) == ((g.fd[(ch * g.gh + rr) * g.bpr + (px \div 8) + 1] \div Pow2(7 - (px % 8))) % 2) = 1

VgaCell(ch, fg, bg) == ((bg * 16 + fg) * 256) + ch

(* ---- the diff ---- *)
RECURSIVE ApplyDiff(_, _, _)
ApplyDiff(rows, d, i) ==
  IF i > Len(d) THEN rows
  ELSE LET r == d[i][1] + 1  c == d[i][2]  b == d[i][3]  old == rows[r]
       IN ApplyDiff([rows EXCEPT ![r] = SubSeq(old, 1, c) \o b \o SubSeq(old, c + Len(b) + 1, Len(old))], d, i + 1)

\* Elements that belong to no cell although they are visible pixels below the logo: the margin right of the last
\* whole cell column and the pixel rows below the last whole text line.  The statement speaks about cells, so these
\* elements are unconstrained (they are inside the framebuffer and are not padding); r, c are 0-based.
Free(g, r, c) == r >= g.offY /\ c < g.rowB /\ (c >= g.gridB \/ r >= g.offY + g.rows * g.gh)

\* an element that changed although it lies neither in rows r0..r1, elements c0..c1 (0-based, inclusive) nor in
\* the free area: <<>> if none.  A span runs from the first to the last changed element of its row and may
\* contain unchanged elements, so elements outside the allowed region are compared with their old value.
Outside(g, old, got, d, r0, r1, c0, c1, what) ==
  LET In(r, c) == (r >= r0 /\ r <= r1 /\ c >= c0 /\ c <= c1) \/ Free(g, r, c)
      Bad(i) == LET r == d[i][1]  a == d[i][2]  z == d[i][2] + Len(d[i][3]) - 1 IN
                IF r >= r0 /\ r <= r1 /\ a >= c0 /\ z <= c1 THEN {}
                ELSE {c \in a..z : ~In(r, c) /\ got[r + 1][c + 1] # old[r + 1][c + 1]}
      S == {i \in 1..Len(d) : Bad(i) # {}}
  IN IF S = {} THEN <<>>
     ELSE LET i == CHOOSE j \in S : \A k \in S : j <= k
              c == CHOOSE x \in Bad(i) : \A y \in Bad(i) : x <= y
              where == IF d[i][1] < g.offY THEN "in the logo rows"
                       ELSE IF c >= g.rowB THEN "in the row padding"
                       ELSE "in another cell"
          IN <<what, where, "row", d[i][1], "element", c, "allowed rows", r0, r1, "allowed elements", c0, c1>>

NoChange(g, d, what) ==
  IF d = <<>> THEN <<>>
  ELSE <<what, "row", d[1][1], "elements", d[1][2], d[1][2] + Len(d[1][3]) - 1>>

(* ---- Write ---- *)
WriteCheck(g, old, got, e) ==
  IF ~(InGrid(e.x, g.cols) /\ InGrid(e.y, g.rows))
  THEN NoChange(g, e.d, "Write outside the grid changed the buffer")
  ELSE
  LET X == W32!ToNat(e.x)  Y == W32!ToNat(e.y)
      r0 == g.offY + (Y - 1) * g.gh
      c0 == (X - 1) * g.gw * g.Bpp
      out == Outside(g, old, got, e.d, r0, r0 + g.gh - 1, c0, c0 + g.gw * g.Bpp - 1, "Write changed elements outside the addressed cell")
  IN IF out # <<>> THEN out
     ELSE IF ~IsFb(g)
     THEN \* documented (Write): a colour beyond the 16-entry palette is replaced by the console's default colour
          LET fg == IF e.fg > 15 THEN g.dfg ELSE e.fg
              bg == IF e.bg > 15 THEN g.dbg ELSE e.bg
              want == VgaCell(e.ch, fg, bg)  v == got[r0 + 1][c0 + 1] IN
          IF v = want THEN <<>>
          ELSE IF e.bg = 15 /\ v = VgaCell(e.ch, fg, 0)
               THEN (IF "VgaWriteBg15" \in Devs THEN <<>>
                     ELSE <<"Dev_VgaWriteBg15", "text cell written with background 0 instead of the requested 15", "cell", X, Y, "got", v, "want", want>>)
          ELSE <<"Write stored the wrong text cell", "cell", X, Y, "got", v, "want", want>>
     ELSE
     LET FG == Pack(g, e.fg)  BG == Pack(g, e.bg)
         PxOK(rr, px) == LET col == IF GlyphBit(g, e.ch, rr, px) THEN FG ELSE BG
                             a == c0 + px * g.Bpp
                         IN \/ SubSeq(got[r0 + rr + 1], a + 1, a + g.Bpp) = col          \* exact equality first (native)
                            \/ (~g.full /\ \A k \in 1..g.Bpp : ElemOK(got[r0 + rr + 1][a + k], col[k], g.mask[k], FALSE))
     IN IF \A rr \in 0..(g.gh - 1) : \A px \in 0..(g.gw - 1) : PxOK(rr, px) THEN <<>>
        ELSE LET B == {p \in (0..(g.gh - 1)) \X (0..(g.gw - 1)) : ~PxOK(p[1], p[2])}
                 p == CHOOSE q \in B : \A o \in B : q[1] < o[1] \/ (q[1] = o[1] /\ q[2] <= o[2])
                 col == IF GlyphBit(g, e.ch, p[1], p[2]) THEN FG ELSE BG
                 have == [k \in 1..g.Bpp |-> got[r0 + p[1] + 1][c0 + p[2] * g.Bpp + k]]
                 hi == g.Bpp = 4 /\ \A k \in 1..3 : ElemOK(have[k], col[k], g.mask[k], g.full)
             IN IF hi /\ have[4] = old[r0 + p[1] + 1][c0 + p[2] * g.Bpp + 4]
                THEN <<"Dev_Pack32HighByte", "bits 24-31 of a 32-bpp pixel not written", "glyph row", p[1], "pixel", p[2], "got", have, "want", col, "mask", g.mask>>
                ELSE <<"Write painted a wrong pixel", "glyph row", p[1], "pixel", p[2], "glyph bit", GlyphBit(g, e.ch, p[1], p[2]),
                       "got", have, "want", col, "mask", g.mask>>

\* with the deviation accepted, byte 4 of a 32-bpp pixel is a don't-care byte
Relax(g) == IF IsFb(g) /\ g.Bpp = 4 /\ "Pack32HighByte" \in Devs
            THEN [g EXCEPT !.mask = [@ EXCEPT ![4] = 0], !.full = FALSE] ELSE g

(* ---- Fill ---- *)
FillCheck(g, old, got, e) ==
  LET X == ClampOrigin(e.x, g.cols)  Y == ClampOrigin(e.y, g.rows)
      Wd == ClipExtent(e.w, g.cols - X + 1)  Ht == ClipExtent(e.h, g.rows - Y + 1)
  IN IF g.cols = 0 \/ g.rows = 0 THEN NoChange(g, e.d, "Fill on a grid without cells changed the buffer")
     ELSE IF Wd = 0 \/ Ht = 0 THEN NoChange(g, e.d, "Fill of an empty rectangle changed the buffer")
  ELSE
  LET r0 == g.offY + (Y - 1) * g.gh   r1 == r0 + Ht * g.gh - 1
      c0 == (X - 1) * g.gw * g.Bpp    c1 == c0 + Wd * g.gw * g.Bpp - 1
      out == Outside(g, old, got, e.d, r0, r1, c0, c1, "Fill changed elements outside the clipped rectangle")
      BG == IF IsFb(g) THEN Pack(g, e.bg) ELSE <<VgaCell(g.clear, e.fg, e.bg)>>
      seg == [i \in 1..(c1 - c0 + 1) |-> BG[((i - 1) % g.Bpp) + 1]]
      \* (exact equality first: it is the common case and a native comparison)
      RowOK(r) == \/ SubSeq(got[r + 1], c0 + 1, c1 + 1) = seg
                  \/ (~g.full /\ \A i \in 1..(c1 - c0 + 1) : ElemOK(got[r + 1][c0 + i], seg[i], g.mask[((i - 1) % g.Bpp) + 1], FALSE))
  IN IF out # <<>> THEN out
     \* text console: nothing is documented for Fill colours beyond the 4-bit attribute fields, so only the extent
     \* of the change is constrained for them
     ELSE IF ~IsFb(g) /\ (e.fg > 15 \/ e.bg > 15) THEN <<>>
     ELSE IF \A r \in r0..r1 : RowOK(r) THEN <<>>
     ELSE LET r == CHOOSE q \in r0..r1 : ~RowOK(q) /\ \A o \in r0..r1 : (~RowOK(o)) => q <= o
              C == {i \in 1..(c1 - c0 + 1) : ~ElemOK(got[r + 1][c0 + i], seg[i], g.mask[((i - 1) % g.Bpp) + 1], FALSE)}
              i == CHOOSE j \in C : \A o \in C : j <= o
              only4 == g.Bpp = 4 /\ \A j \in C : (j - 1) % 4 = 3 /\ got[r + 1][c0 + j] = old[r + 1][c0 + j]
          IN IF only4
             THEN <<"Dev_Pack32HighByte", "bits 24-31 of a 32-bpp pixel not written", "row", r, "element", c0 + i - 1, "got", got[r + 1][c0 + i], "want", seg[i]>>
             ELSE <<"Fill left a cell of the clipped rectangle with the wrong content", "rectangle", X, Y, Wd, Ht, "row", r, "element", c0 + i - 1,
                    "got", got[r + 1][c0 + i], "want", seg[i]>>

(* ---- Scroll ---- *)
\* the parts of two rows that belong to the cell grid agree (on the constrained bits); the margin right of the last
\* whole cell column belongs to no cell and is not compared
VisEq(g, a, b) == IF g.full THEN SubSeq(a, 1, g.gridB) = SubSeq(b, 1, g.gridB)
                  ELSE \A c \in 1..g.gridB : (a[c] & g.mask[((c - 1) % g.Bpp) + 1]) = (b[c] & g.mask[((c - 1) % g.Bpp) + 1])

ScrollCheck(g, old, got, e) ==
  IF ~InGrid(e.n, g.rows) THEN NoChange(g, e.d, "Scroll by an invalid line count changed the buffer")
  ELSE
  LET n == W32!ToNat(e.n)
      up == e.dir = 0
      txt == g.rows * g.gh                     \* pixel rows of whole text lines
      mv == (g.rows - n) * g.gh                \* rows that must arrive
      \* destination text row t (0-based inside the text area) receives source row Src(t)
      Dst == IF up THEN 0..(mv - 1) ELSE (n * g.gh)..(txt - 1)
      Src(t) == IF up THEN t + n * g.gh ELSE t - n * g.gh
      \* strict: nothing above offY and nothing in the padding may change
      padSpans == {i \in 1..Len(e.d) : e.d[i][1] >= g.offY /\ e.d[i][2] + Len(e.d[i][3]) - 1 >= g.rowB}
      strictOut == Outside(g, old, got, e.d, g.offY, g.h - 1, 0, g.rowB - 1, "Scroll changed elements outside the text area")
      \* the named deviation: padding element of a row may take the value of the same element n lines away
      PadDevOK == \A i \in padSpans :
                    LET r == e.d[i][1]  sr == IF up THEN r + n * g.gh ELSE r - n * g.gh IN
                    sr >= g.offY /\ sr <= g.h - 1 /\
                    \A c \in (g.rowB + 1)..g.pitch : got[r + 1][c] = old[r + 1][c] \/ got[r + 1][c] = old[sr + 1][c]
      logoOut == Outside(g, old, got, e.d, g.offY, g.h - 1, 0, g.pitch - 1, "Scroll changed elements outside the text area")
      bad == {t \in Dst : ~VisEq(g, got[g.offY + t + 1], old[g.offY + Src(t) + 1])}
  IN IF logoOut # <<>> THEN logoOut
     ELSE IF padSpans # {} /\ ~("ScrollCopiesPadding" \in Devs /\ PadDevOK)
          THEN (IF PadDevOK THEN <<"Dev_ScrollCopiesPadding", "Scroll rewrote row padding with the padding of the source row">> \o strictOut
                ELSE strictOut)
     ELSE IF bad = {} THEN <<>>
     ELSE LET t == CHOOSE q \in bad : \A o \in bad : q <= o IN
          <<"Scroll did not move the text area by the requested lines", "dir", e.dir, "lines", n,
            "buffer row", g.offY + t, "should hold former row", g.offY + Src(t)>>

(* ---- the monitor ---- *)
S0 == [on |-> FALSE, g |-> <<>>, rows |-> <<>>]

MonInit(s, e) ==
  LET g == Geo(e) IN
  [s |-> [on |-> TRUE, g |-> g, rows |-> e.rows],
   cs |-> <<
     IF e.cols = g.cols /\ e.nrows = g.rows THEN <<>>
     ELSE <<"grid derived from font and logo differs", "got", e.cols, e.nrows, "want", g.cols, g.rows>>,
     IF e.mapped >= e.h * e.pitch THEN <<>>
     ELSE <<"the driver mapped less memory than the framebuffer needs", "mapped elements", e.mapped, "height*pitch", e.h * e.pitch>>,
     IF Len(e.rows) = e.h /\ \A r \in 1..e.h : Len(e.rows[r]) = e.pitch THEN <<>> ELSE <<"harness: malformed init event">> >>]

MonCall(s, e, big) ==
  LET g   == Relax(s.g @@ [fd |-> big.fd, pal |-> big.pal])
      got == ApplyDiff(s.rows, e.d, 1)
  IN [s |-> [s EXCEPT !.rows = got],
      cs |-> <<
        IF e.res = "ok" THEN <<>> ELSE <<"call did not return normally", e.k, e.res>>,
        IF e.guard = 0 THEN <<>> ELSE <<"memory outside the framebuffer changed", e.guard>>,
        IF e.res # "ok" THEN <<>>
        ELSE CASE e.k = "write"  -> WriteCheck(g, s.rows, got, e)
               [] e.k = "fill"   -> FillCheck(g, s.rows, got, e)
               [] e.k = "scroll" -> ScrollCheck(g, s.rows, got, e) >>]

MonChk(s, e) ==
  [s |-> s, cs |-> << IF e.rows = s.rows THEN <<>> ELSE <<"harness: checkpoint differs from the content tracked through the diffs">> >>]

\* big: the init event of the current case (any record with fields fd and pal)
Mon(s, e, big) == CASE e.k = "init"  -> MonInit(s, e)
                    [] e.k = "reset" -> [s |-> S0, cs |-> <<>>]
                    [] e.k = "chk"   -> MonChk(s, e)
                    [] OTHER         -> MonCall(s, e, big)

\* first failing check: <<line, "C19", diagnosis>> or <<>>
FirstFail(line, cs) ==
  LET S == {i \in 1..Len(cs) : cs[i] # <<>>} IN
  IF S = {} THEN <<>> ELSE LET i == CHOOSE j \in S : \A k \in S : j <= k IN <<line, "C19", cs[i]>>
====
