---- MODULE ConsoleTrace ----
(* Trace monitor for C19: events recorded from the real kernel/device/video/console package are   *)
(* judged by the operators of Console, one event per step.  The named deviations that are         *)
(* accepted come from the environment (set by tools/checks/C19.py from known_findings.json).      *)
EXTENDS Integers, Sequences, FiniteSets, TLC, Json, IOUtils, TraceLib
EnvDevs == (IF IOEnv.C19_DEV_SCROLLPAD = "1" THEN {"ScrollCopiesPadding"} ELSE {})
           \cup (IF IOEnv.C19_DEV_PACK32 = "1" THEN {"Pack32HighByte"} ELSE {})
           \cup (IF IOEnv.C19_DEV_VGABG15 = "1" THEN {"VgaWriteBg15"} ELSE {})
C == INSTANCE Console WITH Devs <- EnvDevs
Trace == ndJsonDeserialize(IOEnv.TRACE)

VARIABLES l, gi, s, mismatch          \* gi: line of the init event of the current case (its font and palette stay there)
vars == <<l, gi, s, mismatch>>

Init == l = 1 /\ gi = 1 /\ s = C!S0 /\ mismatch = <<>>
Next == /\ l <= Len(Trace) /\ mismatch = <<>>
        /\ l' = l + 1
        /\ gi' = IF Trace[l].k = "init" THEN l ELSE gi
        /\ LET m == C!Mon(s, Trace[l], Trace[gi]) IN s' = m.s /\ mismatch' = C!FirstFail(l, m.cs)
        /\ Report(mismatch')
NoMismatch == mismatch = <<>>
Accepted == TLCGet("stats").diameter - 1 = Len(Trace)
====
