---- MODULE ConsoleModel ----
(***************************************************************************)
(* Design model of the two console drivers: a transcription of              *)
(*   VesaFbConsole.SetFont / Write / write8,16,24 / Fill / fill8,16,24 /    *)
(*   Scroll / fbOffset / packColor16,24          (vesa_fb.go)               *)
(*   VgaTextConsole.Write / Fill / Scroll        (vga_text.go)              *)
(* over a flat buffer (offset o of the Go slice is fb[o + 1]), with the     *)
(* repaired Fill clipping and the repaired row-wise Scroll.  The geometry   *)
(* is chosen in Init, every action takes 32-bit word arguments from Args,   *)
(* produces the event the real code would log (outcome + diff of the        *)
(* buffer) and the event is judged by the very same monitor operators       *)
(* (module Console) that judge traces of the real package: NoMismatch is    *)
(* C19 for the design.  Bug re-creates realistic wrong designs, among them  *)
(* the two the pinned tree contains; TLC must reject each of them.          *)
(* With Emit the run also writes every geometry and every explored call     *)
(* script as ndjson for leg G (replayed on the real code).                  *)
(***************************************************************************)
EXTENDS Integers, Sequences, FiniteSets, TLC, Json, CSV, IOUtils, Bitwise
CONSTANTS Geoms,      \* set of geometry records (MCConsole)
          Args,       \* 32-bit words <<hi, lo>> used for x, y, w, h, n
          Chars, ColPairs, FillCols, VgaCols, VgaFill,
          MaxOps, Bug, Emit

C == INSTANCE Console WITH Devs <- {}
W32 == INSTANCE Word WITH LimbBits <- 16, NLimbs <- 2
WNat(n) == W32!FromNat(n)

VARIABLES g, fb, nops, script, s, mismatch
vars == <<g, fb, nops, script, s, mismatch>>

IsFb == g.cons = "fb"
N == Len(fb)
Bpp == IF IsFb THEN (g.bpp + 1) \div 8 ELSE 1
NB == IF Bpp = 4 /\ Bug = "Pack32ThreeBytes" THEN 3 ELSE Bpp   \* bytes the driver stores per pixel (3 of 4 before the repair)
\* SetFont: the grid
Cols == g.w \div g.gw
Rows == IF Bug = "GridIgnoresLogo" THEN g.h \div g.gh ELSE (g.h - g.offY) \div g.gh

--------------------------------------------------------------------------
(* stores with Go's bounds check: st = [fb, panic] *)
Set(st, o, v) == IF st.panic \/ o < 0 \/ o >= Len(st.fb) THEN [st EXCEPT !.panic = TRUE]
                 ELSE [st EXCEPT !.fb[o + 1] = v]
PutPx(st, o, comp) ==
  LET p1 == Set(st, o, comp[1])
      p2 == IF NB >= 2 THEN Set(p1, o + 1, comp[2]) ELSE p1
      p3 == IF NB >= 3 THEN Set(p2, o + 2, comp[3]) ELSE p2
  IN IF NB >= 4 THEN Set(p3, o + 3, comp[4]) ELSE p3

FbOffset(x, y) == (y + (IF Bug = "OffsetIgnoresLogo" THEN 0 ELSE g.offY)) * g.pitch + x * Bpp

\* packColor16 / packColor24 (the first NB bytes of the packed colour)
PackM(ci) == IF g.bpp = 8 THEN <<ci>>
             ELSE LET lay == IF Bug = "Pack15As16" /\ g.bpp = 15 THEN <<11, 5, 5, 6, 0, 5>> ELSE g.ci
                      c == g.pal[ci + 1]
                      \* before the repair c >> uint8(8 - size) was 0 for a mask wider than 8 bits
                      rgb == IF Bug = "PackWideMaskZero"
                             THEN <<IF lay[2] > 8 THEN 0 ELSE c[1], IF lay[4] > 8 THEN 0 ELSE c[2], IF lay[6] > 8 THEN 0 ELSE c[3]>> ELSE c
                  IN [k \in 1..NB |-> C!PackByte(lay, rgb, k - 1)]

FdAt(fo) == IF fo + 1 <= Len(g.fd) THEN g.fd[fo + 1] ELSE 0

\* inner loop of write8/16/24: one glyph row
RECURSIVE WrPx(_, _, _, _, _, _, _)
WrPx(st, x, fbo, mask, fo, FG, BG) ==
  IF x = g.gw THEN [st |-> st, fo |-> fo]
  ELSE LET rst == mask = 0
           fo2 == IF rst THEN fo + 1 ELSE fo
           m2  == IF rst THEN (IF Bug = "MaskNotReset" THEN 0 ELSE 128) ELSE mask
           bit == m2 # 0 /\ (FdAt(fo2) \div m2) % 2 = 1
       IN WrPx(PutPx(st, fbo, IF bit THEN FG ELSE BG), x + 1, fbo + Bpp, m2 \div 2, fo2, FG, BG)
RECURSIVE WrRows(_, _, _, _, _, _)
WrRows(st, y, fbRow, fo, FG, BG) ==
  IF y = g.gh THEN st
  ELSE LET r == WrPx(st, 0, fbRow, 128, fo, FG, BG) IN WrRows(r.st, y + 1, fbRow + g.pitch, r.fo + 1, FG, BG)

WriteM(st, ch, fg, bg, x, y) ==
  LET inX == IF Bug = "WriteXGe" THEN ~W32!IsZero(x) /\ W32!Lt(x, WNat(Cols)) ELSE C!InGrid(x, Cols) IN
  IF ~(inX /\ C!InGrid(y, Rows)) THEN st
  ELSE LET X == W32!ToNat(x)  Y == W32!ToNat(y) IN
       IF IsFb THEN WrRows(st, 0, FbOffset((X - 1) * g.gw, (Y - 1) * g.gh), ch * g.bpr * g.gh, PackM(fg), PackM(bg))
       ELSE LET lim == IF Bug = "VgaColor16" THEN 16 ELSE 15          \* maxColorIndex
                bg2 == IF bg > lim \/ (Bug = "VgaBg15" /\ bg = 15) THEN g.dbg ELSE bg
                fg2 == IF fg > lim THEN g.dfg ELSE fg
            IN Set(st, (Y - 1) * g.w + (X - 1), ((((bg2 * 16) | fg2) * 256) + ch) % 65536)   \* uint16 arithmetic

\* Fill: clamp the origin, clip the extent, paint
RECURSIVE FillRow(_, _, _, _)
FillRow(st, o, end, comp) == IF o >= end THEN st ELSE FillRow(PutPx(st, o, comp), o + Bpp, end, comp)
RECURSIVE FillRows(_, _, _, _, _)
FillRows(st, ph, rowo, pwB, comp) == IF ph = 0 \/ st.panic THEN st ELSE FillRows(FillRow(st, rowo, rowo + pwB, comp), ph - 1, rowo + g.pitch, pwB, comp)

Clamp(a, max) == IF W32!IsZero(a) THEN 1 ELSE IF W32!Le(WNat(max), a) THEN max ELSE W32!ToNat(a)
\* clipped extent, or -1 when the extent stays unclipped although it does not fit a small integer
Clip(a, o, max) ==
  LET room == max - o + 1
      clip == IF Bug = "FillClipWraps" THEN W32!Lt(WNat(max), W32!Sub(W32!Add(WNat(o), a), WNat(1)))   \* o+a-1 > max, mod 2^32
              ELSE room >= 0 /\ W32!Lt(WNat(room), a)
  IN IF clip THEN room ELSE IF W32!Lt(WNat(1000), a) THEN -1 ELSE W32!ToNat(a)

FillM(st, x, y, w, h, fg, bg) ==
  LET X == Clamp(x, Cols)  Y == Clamp(y, Rows)
      Wd == Clip(w, X, IF Bug = "FillClipWidthAgainstRows" THEN Rows ELSE Cols)
      Ht == Clip(h, Y, Rows)
  IN IF (Cols = 0 \/ Rows = 0) /\ Bug # "EmptyGridUnguarded" THEN st       \* no cell to paint (before the repair: origin 0 wraps)
     ELSE IF Wd = -1 THEN st                                   \* row end wraps below the row start: nothing is painted
     ELSE IF Ht = -1 THEN [st EXCEPT !.panic = TRUE]           \* the row loop runs off the end of the buffer
     ELSE IF IsFb THEN FillRows(st, Ht * g.gh, FbOffset((X - 1) * g.gw, (Y - 1) * g.gh), Wd * g.gw * Bpp, PackM(bg))
     ELSE FillRows(st, Ht, (Y - 1) * g.w + (X - 1), Wd, <<((((bg * 16) | fg) * 256) % 65536) + g.clear>>)                  \* uint16 arithmetic

\* Scroll (loops that read ahead of what they overwrite = simultaneous assignment)
ScrollM(st, dir, n) ==
  IF ~C!InGrid(n, Rows) THEN st
  ELSE IF ~IsFb /\ g.w = 0 THEN (IF Bug = "EmptyGridUnguarded" /\ dir = 1 THEN [st EXCEPT !.panic = TRUE] ELSE st)   \* i = h*w-1 wraps
  ELSE
  LET l == W32!ToNat(n)
      off == l * g.gh * g.pitch
      rowB == g.w * Bpp
      top == IF Bug = "ScrollCopiesLogo" THEN 0 ELSE g.offY
      Vis(o) == Bug = "ScrollCopiesPadding" \/ ((o - 1) % g.pitch) < rowB
  IN IF dir = 0
     THEN LET start == top * g.pitch  end == (g.h - l * g.gh) * g.pitch IN
          [st EXCEPT !.fb = [o \in 1..Len(st.fb) |-> IF o - 1 >= start /\ o - 1 < end /\ Vis(o) THEN st.fb[o + off] ELSE st.fb[o]]]
     ELSE LET start == (l * g.gh + top) * g.pitch IN
          [st EXCEPT !.fb = [o \in 1..Len(st.fb) |-> IF o - 1 >= start /\ Vis(o) /\ o - off >= 1 THEN st.fb[o - off] ELSE st.fb[o]]]

--------------------------------------------------------------------------
(* events *)
RowsOf(f) == [r \in 1..g.h |-> SubSeq(f, (r - 1) * g.pitch + 1, r * g.pitch)]
DiffSpans(old, new) ==
  LET Span(r) == LET S == IF SubSeq(old, r * g.pitch + 1, (r + 1) * g.pitch) = SubSeq(new, r * g.pitch + 1, (r + 1) * g.pitch) THEN {}
                                 ELSE {c \in 0..(g.pitch - 1) : old[r * g.pitch + c + 1] # new[r * g.pitch + c + 1]} IN
                 IF S = {} THEN <<>>
                 ELSE LET lo == CHOOSE c \in S : \A d \in S : c <= d
                          hi == CHOOSE c \in S : \A d \in S : c >= d
                      IN << <<r, lo, [i \in 1..(hi - lo + 1) |-> new[r * g.pitch + lo + i]]>> >>
      RECURSIVE Cat(_)
      Cat(r) == IF r = g.h THEN <<>> ELSE Span(r) \o Cat(r + 1)
  IN Cat(0)

Step(st, ev, call) ==
  LET e == ev @@ [res |-> IF st.panic THEN "panic" ELSE "ok", d |-> DiffSpans(fb, st.fb), guard |-> 0]
      m == C!MonCall(s, e, g)
  IN /\ fb' = st.fb
     /\ s' = m.s
     /\ mismatch' = C!FirstFail(nops + 1, m.cs)
     /\ nops' = IF st.panic THEN MaxOps ELSE nops + 1
     /\ script' = Append(script, call)
     /\ UNCHANGED g

St0 == [fb |-> fb, panic |-> FALSE]
DoWrite(ch, fg, bg, x, y) ==
  Step(WriteM(St0, ch, fg, bg, x, y), [k |-> "write", ch |-> ch, fg |-> fg, bg |-> bg, x |-> x, y |-> y], <<0, ch, fg, bg, x, y>>)
DoFill(x, y, w, h, fg, bg) ==
  Step(FillM(St0, x, y, w, h, fg, bg), [k |-> "fill", x |-> x, y |-> y, w |-> w, h |-> h, fg |-> fg, bg |-> bg], <<1, x, y, w, h, fg, bg>>)
DoScroll(dir, n) ==
  Step(ScrollM(St0, dir, n), [k |-> "scroll", dir |-> dir, n |-> n], <<2, dir, n>>)

\* position-dependent initial content (padding and logo rows included)
Fb0(ge) == IF ge.cons = "fb" THEN [o \in 1..(ge.h * ge.pitch) |-> (o * 37 + (o \div ge.pitch) * 101 + 11) % 256]
           ELSE [o \in 1..(ge.h * ge.pitch) |-> (o * 2741 + 977) % 65536]

Init ==
  /\ g \in Geoms
  /\ fb = Fb0(g)
  /\ nops = 0 /\ script = <<>>
  /\ LET e == [k |-> "init", cons |-> g.cons, w |-> g.w, h |-> g.h, pitch |-> g.pitch, bpp |-> g.bpp, ci |-> g.ci,
               gw |-> g.gw, gh |-> g.gh, bpr |-> g.bpr, offY |-> g.offY, clear |-> g.clear, dfg |-> g.dfg, dbg |-> g.dbg, fd |-> g.fd, pal |-> g.pal,
               rows |-> RowsOf(fb), cols |-> Cols, nrows |-> Rows,
               mapped |-> g.h * g.pitch, fblen |-> g.h * g.pitch]
         m == C!MonInit(C!S0, e)
     IN s = m.s /\ mismatch = C!FirstFail(0, m.cs)

Cp == IF IsFb THEN ColPairs ELSE VgaCols
Next == /\ mismatch = <<>> /\ nops < MaxOps
        /\ \/ \E ch \in Chars, cp \in Cp, x \in Args, y \in Args : DoWrite(ch, cp[1], cp[2], x, y)
           \/ \E x \in Args, y \in Args, w \in Args, h \in Args, cp \in (IF IsFb THEN FillCols ELSE VgaFill) : DoFill(x, y, w, h, cp[1], cp[2])
           \/ \E dir \in {0, 1}, n \in Args : DoScroll(dir, n)

NoMismatch == mismatch = <<>>
\* the monitor's reconstruction of the buffer from the diffs equals the model's buffer
Tracked == s.rows = RowsOf(fb)

\* leg G: every geometry and every explored call script is written out for the Go harness
EmitGeom == (Emit /\ nops = 0) =>
   CSVWrite("%1$s", <<ToJson([t |-> "geom", id |-> g.id, cons |-> g.cons, w |-> g.w, h |-> g.h, pitch |-> g.pitch, bpp |-> g.bpp,
                              ci |-> g.ci, gw |-> g.gw, gh |-> g.gh, offY |-> g.offY])>>, IOEnv.CASES)
EmitCalls == (Emit /\ nops > 0 /\ (nops = MaxOps \/ mismatch # <<>>)) =>
   CSVWrite("%1$s", <<ToJson([t |-> "calls", id |-> g.id, script |-> script])>>, IOEnv.CASES)
====
