CONSTANTS Part = "codec" Scope = "full" Emit = TRUE Bug = "" EncDevs = {"NameCharsUnchecked", "MultiNameLenWraps"}
INIT Init
NEXT Next
INVARIANT RoundTrip
INVARIANT EmitCase
CHECK_DEADLOCK FALSE
