CONSTANTS Part = "codec" Scope = "quick" Emit = FALSE Bug = "SegLenWraps8" EncDevs = {"NameCharsUnchecked"}
INIT Init
NEXT Next
INVARIANT RoundTrip
CHECK_DEADLOCK FALSE
