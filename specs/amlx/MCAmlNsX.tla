---- MODULE MCAmlNsX ----
(* extra-amlgrow, legs M/G: the program generator for the grown grammar.                            *)
(* A behaviour builds one program token by token; the loader state `st` of AmlNsX is carried along,  *)
(* so only tokens that keep the program well formed - and free of the trigger constructs listed in   *)
(* Excluded (open findings of C11, kind-B deviations) - are appended.  Every state that ends a table *)
(* is a complete program and is written out (EmitProg) for the Go harness.                          *)
(* Invariants: the loader's own properties (LoaderSoundX); MCAmlBodyX adds BodyRefines (the abstract *)
(* model of the parser's operand-collection passes builds exactly the rendered statement lists).    *)
EXTENDS AmlNsX, Json, IOUtils, CSV

CONSTANTS
  Prelude,      \* token sequence every generated program starts with (declares the objects the productions under test refer to)
  Fresh,        \* sequence of names; the i-th object declared in a program gets Fresh[i]
  PreScopes,    \* predefined scopes the generator uses as targets (subset of PredefSegs)
  MaxProd, MaxTables, MaxDepth,
  Decls,        \* subset of {"Device","Name","Method0","Method1","Method2","OpRegion","DataRegion","Field","IndexField","BankField",
                \*            "Alias","External","CreateField","Mutex","Event","Scope"}
  Forms,        \* subset of {"abs","caret","rel"}: name forms beyond the single segment (declarations and references)
  Values,       \* subset of {"const","pkgref","pkgmeth","bufname","bufcall","bufop","varpkg"}: shapes of Name values / terms
  Stmts,        \* subset of {"sync","notify","match","matchbad","loadtable","store","call","callop","calloplast","cfield","pkg","varpkg","buf","if","else","while","rel"}
  MaxStmts,
  Excluded,     \* trigger ids that must not fire
  Emit,         \* write complete programs to IOEnv.CASES
  Bug           \* design mutant of AmlBodyImpl ("" = none)

VARIABLES toks, st, nprod, nfresh, nstm, lastClosed
vars == <<toks, st, nprod, nfresh, nstm, lastClosed>>

F(a, c, s) == [abs |-> a, carets |-> c, segs |-> s]
Cn(tag, v) == [t |-> tag, n |-> <<v>>]
Wd == 1 + (Len(toks) % 4)
Depth == Len(st.stack)
NextName == Fresh[nfresh + 1]

Objs(kinds) == {e \in st.ns : e.kind \in kinds}
UserScopes == {o.p : o \in Objs(ObjKinds)}
AllScopes  == UserScopes \cup {<<>>} \cup {<<s>> : s \in PreScopes}
ChildScopes(cur) == {p \in AllScopes : Len(p) = Len(cur) + 1 /\ Prefix(p, Len(cur)) = cur}

\* forms for a NEW name nm declared from the current scope
DeclForms(nm) ==
  {F(FALSE, 0, <<nm>>)}
  \cup (IF "abs" \in Forms THEN {F(TRUE, 0, Append(p, nm)) : p \in AllScopes} ELSE {})
  \cup (IF "caret" \in Forms THEN {F(FALSE, 1, <<nm>>)} ELSE {})
  \cup (IF "rel" \in Forms THEN {F(FALSE, 0, <<Last(p), nm>>) : p \in ChildScopes(Cur(st))} ELSE {})
\* forms that designate the EXISTING object at path p, seen from the current scope
RefForms(p) ==
  (IF SearchUp(st.ns, Cur(st), Last(p)) = p THEN {F(FALSE, 0, <<Last(p)>>)} ELSE {})
  \cup (IF "abs" \in Forms THEN {F(TRUE, 0, p)} ELSE {})
  \cup (IF "caret" \in Forms /\ Cur(st) # <<>> /\ Front(p) = Front(Cur(st)) THEN {F(FALSE, 1, <<Last(p)>>)} ELSE {})
  \cup (IF "rel" \in Forms /\ Len(p) = Len(Cur(st)) + 2 /\ Prefix(p, Len(Cur(st))) = Cur(st) THEN {F(FALSE, 0, SubSeq(p, Len(p) - 1, Len(p)))} ELSE {})
ScopeForms == UNION {RefForms(p) : p \in AllScopes \ {<<>>}}

A0 == [t |-> "arg", n |-> <<0>>]
L0 == [t |-> "local", n |-> <<0>>]
L1 == [t |-> "local", n |-> <<1>>]
C5 == Cn("byte", 5)
One == [t |-> "one"]
Zero == [t |-> "zero"]
Op(s, a) == [t |-> "op", s |-> s, a |-> a]
Ref(f) == [t |-> "ref", f |-> f]
CallT(f, a) == [t |-> "call", f |-> f, a |-> a]
Buf(len, bs) == [t |-> "buffer", a |-> <<len>>, n |-> bs]
Pkg(es) == [t |-> "package", n |-> <<Len(es)>>, a |-> es]

Names(kinds) == {e.p : e \in Objs(kinds)}
MethodsN(n) == {e.p : e \in {m \in Objs({"Method"}) : m.args[1].n[1] % 8 = n}}
RefsTo(ps) == UNION {{Ref(f) : f \in RefForms(p)} : p \in ps}
CallsTo(n, args) == UNION {{CallT(f, args) : f \in RefForms(p)} : p \in MethodsN(n)}
DataNames == Names({"Name"})
\* forward reference: the name declared next (only as a single segment)
Fwd == IF nfresh < Len(Fresh) THEN {Ref(F(FALSE, 0, <<NextName>>))} ELSE {}

NameVals ==
  (IF "const" \in Values THEN {Cn("byte", 200), Buf(Cn("byte", 3), <<1, 255>>), Pkg(<<Cn("word", 4660), [t |-> "string", s |-> "x"]>>)} ELSE {})
  \cup (IF "pkgref" \in Values THEN {Pkg(<<r, C5>>) : r \in RefsTo(DataNames \cup Names({"Device"}))} \cup {Pkg(<<Pkg(<<r>>)>>) : r \in RefsTo(DataNames)} ELSE {})
  \cup (IF "pkgmeth" \in Values THEN {Pkg(<<C5, r>>) : r \in RefsTo(MethodsN(0) \cup MethodsN(1))} ELSE {})
  \cup (IF "bufname" \in Values THEN {Buf(r, <<7>>) : r \in RefsTo(DataNames)} ELSE {})
  \cup (IF "bufcall" \in Values THEN {Buf(c, <<7>>) : c \in CallsTo(0, <<>>) \cup CallsTo(1, <<C5>>)} ELSE {})
  \cup (IF "bufop" \in Values THEN {Buf(Op("Add", <<C5, One>>), <<7>>)} \cup {Buf(Op("Add", <<r, One>>), <<>>) : r \in RefsTo(DataNames)} ELSE {})
DeclArgs(kd) == CASE kd = "Name"       -> {<<v>> : v \in NameVals}
                  [] kd = "OpRegion"   -> {<<Cn("byte", 1), Cn("word", 4096), Cn("byte", 16)>>}
                  [] kd = "DataRegion" -> {<<[t |-> "string", s |-> "SIG0"], [t |-> "string", s |-> ""], [t |-> "string", s |-> "OEMTABLE"]>>}
                  [] kd = "Mutex"      -> {<<Cn("byte", 3)>>}
                  [] kd = "Event"      -> {<<>>}

Regions == Names({"OpRegion", "DataRegion"})
UnitsN  == Names({"NamedField"})
FieldEls(a, b) == { <<[e |-> "unit", name |-> a, bits |-> 8, wl |-> 1]>>,
                    <<[e |-> "skip", bits |-> 4100, wl |-> 1], [e |-> "unit", name |-> a, bits |-> 70003, wl |-> 2],
                      [e |-> "access", at |-> 3, aa |-> 1], [e |-> "unit", name |-> b, bits |-> 4095, wl |-> 1]>> }
BankVals == {C5} \cup RefsTo(DataNames) \cup CallsTo(0, <<>>)
            \cup (IF "bufop" \in Values THEN {Op("Add", <<C5, One>>)} \cup {Op("Add", <<r, One>>) : r \in RefsTo(DataNames)} ELSE {})

\* ---- statements
SyncOps == UNION {{Op("Acquire", <<m, Cn("word", 65535)>>), Op("Release", <<m>>)} : m \in RefsTo(Names({"Mutex"}))}
           \cup UNION {{Op("Signal", <<e>>), Op("Wait", <<e, C5>>), Op("Reset", <<e>>), Op("Wait", <<e, L0>>)} : e \in RefsTo(Names({"Event"}))}
NotifyOps == {Op("Notify", <<d, Cn("byte", 128)>>) : d \in RefsTo(Names({"Device"}))} \cup {Op("Notify", <<A0, A0>>)}
MatchOps(bad) == {Op("Match", <<p, Cn("byte", m1), C5, Cn("byte", m2), Zero, One>>) : p \in RefsTo(DataNames) \cup {A0}, m1 \in (IF bad THEN {1, 4} ELSE {0, 1}), m2 \in {0, 1}}
LoadTables == {Op("LoadTable", <<[t |-> "string", s |-> "OEM1"], [t |-> "string", s |-> ""], [t |-> "string", s |-> ""], [t |-> "string", s |-> "\\"], [t |-> "string", s |-> ""], Zero>>)}
Calls == CallsTo(0, <<>>) \cup CallsTo(1, <<A0>>) \cup CallsTo(2, <<C5, A0>>) \cup UNION {CallsTo(1, <<r>>) : r \in RefsTo(DataNames) \cup Fwd}
CallOps == CallsTo(2, <<Op("Add", <<A0, C5>>), A0>>) \cup UNION {CallsTo(1, <<c>>) : c \in CallsTo(2, <<A0, Op("Add", <<A0, C5>>)>>)}
CallOpsLast == CallsTo(2, <<A0, Op("Add", <<A0, C5>>)>>) \cup CallsTo(1, <<Op("Subtract", <<A0, One, L1>>)>>)
               \cup UNION {CallsTo(2, <<A0, Op("Add", <<c, C5>>)>>) : c \in CallsTo(1, <<A0>>)}
PkgTerms == {Pkg(<<r, C5>>) : r \in RefsTo(DataNames)} \cup {Pkg(<<C5, r>>) : r \in RefsTo(MethodsN(0))}
VarPkgs == {[t |-> "varpackage", a |-> <<c, C5>>] : c \in {A0, L1, One}} \cup {[t |-> "varpackage", a |-> <<C5, One>>]}
Bufs == {Buf(A0, <<1, 2>>), Buf(L1, <<>>), Buf(Op("Add", <<A0, C5>>), <<9>>), Buf(Op("Add", <<A0, C5, L1>>), <<9>>)}
        \cup {Buf(r, <<9>>) : r \in RefsTo(DataNames)} \cup {Buf(c, <<>>) : c \in CallsTo(1, <<A0>>)}
        \cup {Buf(Op("Add", <<r, One>>), <<>>) : r \in RefsTo(DataNames)}
Exprs ==
  (IF "call" \in Stmts THEN Calls ELSE {})
  \cup (IF "callop" \in Stmts THEN CallOps ELSE {})
  \cup (IF "calloplast" \in Stmts THEN CallOpsLast ELSE {})
  \cup (IF "pkg" \in Stmts THEN PkgTerms ELSE {})
  \cup (IF "varpkg" \in Stmts THEN VarPkgs ELSE {})
  \cup (IF "buf" \in Stmts THEN Bufs ELSE {})
  \cup (IF "match" \in Stmts THEN MatchOps(FALSE) ELSE {})
  \cup (IF "matchbad" \in Stmts THEN MatchOps(TRUE) ELSE {})
  \cup (IF "loadtable" \in Stmts THEN LoadTables ELSE {})
  \cup (IF "sync" \in Stmts THEN {e \in SyncOps : e.s \in {"Acquire", "Wait"}} ELSE {})
StmtToks ==
  {[k |-> "stmt", op |-> "x", x |-> <<e>>] : e \in (IF "sync" \in Stmts THEN SyncOps ELSE {}) \cup (IF "notify" \in Stmts THEN NotifyOps ELSE {})
                                                    \cup (IF "call" \in Stmts THEN Calls ELSE {}) \cup (IF "callop" \in Stmts THEN CallOps ELSE {})
                                                    \cup (IF "calloplast" \in Stmts THEN CallOpsLast ELSE {}) \cup (IF "loadtable" \in Stmts THEN LoadTables ELSE {})}
  \cup (IF "store" \in Stmts THEN {[k |-> "stmt", op |-> "store", x |-> <<e, tg>>] : e \in Exprs \cup {A0}, tg \in {L1} \cup RefsTo(DataNames)}
                                  \cup {[k |-> "stmt", op |-> "ret", x |-> <<e>>] : e \in Exprs \cup RefsTo(DataNames)}
                                  \cup {[k |-> "stmt", op |-> "inc", x |-> <<L0>>]} ELSE {})
Preds == {A0} \cup (IF "store" \in Stmts THEN RefsTo(DataNames) \cup {Op("LLess", <<L0, C5>>)} \cup CallsTo(1, <<L0>>) \cup {Op("LEqual", <<r, C5>>) : r \in RefsTo(DataNames)} ELSE {})
CreateToks(nm) == {[k |-> "cfield", kind |-> kd, f |-> f, x |-> <<src, Zero>>] : kd \in {"CreateWordField", "CreateQWordField"}, f \in (IF InMethod(st) THEN {F(FALSE, 0, <<nm>>)} ELSE DeclForms(nm)),
                                                                                   src \in (IF InMethod(st) THEN {A0} ELSE {}) \cup RefsTo(DataNames)}
                  \cup {[k |-> "cfield", kind |-> "CreateField", f |-> F(FALSE, 0, <<nm>>), x |-> <<src, C5, Cn("byte", 13)>>] : src \in (IF InMethod(st) THEN {A0} ELSE RefsTo(DataNames))}

Step(t, dprod, dfresh) ==
  /\ toks' = Append(toks, t)
  /\ st' = ApplyX(st, t)
  /\ st'.err = <<>> /\ st'.trig \cap Excluded = {}
  /\ nprod' = (IF t.k = "endtable" THEN 0 ELSE nprod + dprod) /\ nfresh' = nfresh + dfresh

Room(n) == ~InMethod(st) /\ nprod < MaxProd /\ nfresh + n <= Len(Fresh) /\ st.tab <= MaxTables
GenDevice   == /\ "Device" \in Decls /\ Room(1) /\ Depth < MaxDepth
             /\ \E f \in DeclForms(NextName) : Step([k |-> "open", kind |-> "Device", f |-> f, w |-> Wd, args |-> <<>>], 1, 1)
             /\ UNCHANGED nstm /\ lastClosed' = ""
GenDecl   == /\ Room(1)
             /\ \E kd \in Decls \cap {"Name", "OpRegion", "DataRegion", "Mutex", "Event"} : \E f \in DeclForms(NextName) : \E a \in DeclArgs(kd) :
                  Step([k |-> "decl", kind |-> kd, f |-> f, args |-> a], 1, 1)
             /\ UNCHANGED nstm /\ lastClosed' = ""
GenMethod == /\ Room(1) /\ Depth < MaxDepth
              /\ \E n \in {i \in 0..2 : ("Method" \o ToString(i)) \in Decls} : \E f \in DeclForms(NextName) :
                   Step([k |-> "method", f |-> f, w |-> Wd, flags |-> n + 8], 1, 1)
              /\ nstm' = 0 /\ lastClosed' = ""
GenScope == /\ "Scope" \in Decls /\ Room(0) /\ Depth < MaxDepth
             /\ \E f \in ScopeForms : Step([k |-> "scope", f |-> f, w |-> Wd], 1, 0)
             /\ UNCHANGED nstm /\ lastClosed' = ""
GenField == /\ "Field" \in Decls /\ Room(2)
             /\ \E r \in Regions : \E f \in RefForms(r) : \E els \in FieldEls(Fresh[nfresh + 1], Fresh[nfresh + 2]) :
                  Step([k |-> "field", f |-> f, w |-> Wd, flags |-> 33, els |-> els], 1, Cardinality({i \in 1..Len(els) : els[i].e = "unit"}))
             /\ UNCHANGED nstm /\ lastClosed' = ""
GenIndexField == /\ "IndexField" \in Decls /\ Room(2)
                  /\ \E i \in UnitsN, d \in UnitsN : i # d /\ \E f \in RefForms(i), g \in RefForms(d) : \E els \in FieldEls(Fresh[nfresh + 1], Fresh[nfresh + 2]) :
                       Step([k |-> "ifield", f |-> f, g |-> g, w |-> Wd, flags |-> 18, els |-> els], 1, Cardinality({j \in 1..Len(els) : els[j].e = "unit"}))
                  /\ UNCHANGED nstm /\ lastClosed' = ""
GenBankField == /\ "BankField" \in Decls /\ Room(2)
                 /\ \E r \in Regions, b \in UnitsN : \E f \in RefForms(r), g \in RefForms(b) : \E v \in BankVals : \E els \in FieldEls(Fresh[nfresh + 1], Fresh[nfresh + 2]) :
                      Step([k |-> "bfield", f |-> f, g |-> g, x |-> <<v>>, w |-> Wd, flags |-> 81, els |-> els], 1, Cardinality({j \in 1..Len(els) : els[j].e = "unit"}))
                 /\ UNCHANGED nstm /\ lastClosed' = ""
GenAlias == /\ "Alias" \in Decls /\ Room(1)
             /\ \E s \in Names({"Name", "Method", "Device", "NamedField"}) : \E g \in RefForms(s), f \in DeclForms(NextName) :
                  Step([k |-> "alias", g |-> g, f |-> f], 1, 1)
             /\ UNCHANGED nstm /\ lastClosed' = ""
GenExternal == /\ "External" \in Decls /\ Room(1)
                /\ \/ \E f \in DeclForms(NextName) : Step([k |-> "external", f |-> f, args |-> <<Cn("byte", 8), Cn("byte", 1)>>], 1, 1)
                   \/ \E p \in {q \in Names({"Name", "Method"}) : Front(q) = Cur(st)} : Step([k |-> "external", f |-> F(FALSE, 0, <<Last(p)>>), args |-> <<Cn("byte", 1), Cn("byte", 0)>>], 1, 0)
                /\ UNCHANGED nstm /\ lastClosed' = ""
GenCreate == /\ "CreateField" \in Decls /\ Room(1)
              /\ \E t \in CreateToks(NextName) : Step(t, 1, 1)
              /\ UNCHANGED nstm /\ lastClosed' = ""
GenStatement == /\ InMethod(st) /\ nprod < MaxProd /\ nstm < MaxStmts
             /\ \/ \E t \in StmtToks : Step(t, 1, 0)
                \/ "cfield" \in Stmts /\ nfresh < Len(Fresh) /\ \E t \in CreateToks(NextName) : Step(t, 1, 1)
                \/ /\ "if" \in Stmts /\ Depth < MaxDepth + 2
                   /\ \E p \in Preds : Step([k |-> "if", x |-> <<p>>, w |-> Wd], 1, 0)
                \/ /\ "else" \in Stmts /\ lastClosed = "if" /\ Depth < MaxDepth + 2
                   /\ Step([k |-> "else", w |-> Wd], 1, 0)
                \/ /\ "while" \in Stmts /\ Depth < MaxDepth + 2
                   /\ \E p \in Preds : Step([k |-> "while", x |-> <<p>>, w |-> Wd], 1, 0)
             /\ nstm' = nstm + 1 /\ lastClosed' = ""
\* load-time statements written directly in a scope
GenScopeStmt == /\ "scopestmt" \in Stmts /\ Room(0)
             /\ \E t \in {y \in StmtToks : y.op # "ret"} : Step(t, 1, 0)
             /\ UNCHANGED nstm /\ lastClosed' = ""
GenClose     == /\ st.stack # <<>>
             /\ Step([k |-> "close"], 0, 0)
             /\ UNCHANGED nstm /\ lastClosed' = Last(st.stack).t
GenEndTable == /\ st.stack = <<>> /\ nprod > 0 /\ st.tab <= MaxTables
              /\ Step([k |-> "endtable"], 0, 0)
              /\ UNCHANGED nstm /\ lastClosed' = ""

Init == toks = Prelude /\ st = LoadX(Prelude) /\ nprod = 0 /\ nfresh = 0 /\ nstm = 0 /\ lastClosed = ""
Next == GenDevice \/ GenDecl \/ GenMethod \/ GenScope \/ GenField \/ GenIndexField \/ GenBankField \/ GenAlias \/ GenExternal
        \/ GenCreate \/ GenStatement \/ GenScopeStmt \/ GenClose \/ GenEndTable

IsComplete == toks # <<>> /\ Last(toks).k = "endtable"

\* preludes
TByte(v) == [t |-> "byte", n |-> <<v>>]
DName(n, v) == [k |-> "decl", kind |-> "Name", f |-> F(FALSE, 0, <<n>>), args |-> <<v>>]
DMeth(n, argc) == <<[k |-> "method", f |-> F(FALSE, 0, <<n>>), w |-> 1, flags |-> argc], [k |-> "stmt", op |-> "ret", x |-> <<[t |-> "arg", n |-> <<0>>]>>], [k |-> "close"]>>
DRegion(n) == [k |-> "decl", kind |-> "OpRegion", f |-> F(FALSE, 0, <<n>>), args |-> <<TByte(1), [t |-> "word", n |-> <<4096>>], TByte(16)>>]
DField(r, a, b) == [k |-> "field", f |-> F(FALSE, 0, <<r>>), w |-> 1, flags |-> 1, els |-> <<[e |-> "unit", name |-> a, bits |-> 8, wl |-> 1], [e |-> "unit", name |-> b, bits |-> 8, wl |-> 1]>>]
PreNone   == <<>>
\* \_SB_.DEV1.REG1 / IDX1 / DAT1: names with three segments (multi-name prefix) for the positions that are never looked up
PreFields == <<DRegion("REG0"), DField("REG0", "IDX0", "DAT0"), DName("NAM0", TByte(7))>> \o DMeth("MTH0", 0)
             \o <<[k |-> "scope", f |-> F(TRUE, 0, <<"_SB_">>), w |-> 1],
                  [k |-> "open", kind |-> "Device", f |-> F(FALSE, 0, <<"DEV1">>), w |-> 1, args |-> <<>>],
                  DRegion("REG1"), DField("REG1", "IDX1", "DAT1"), [k |-> "close"], [k |-> "close"]>>
PreDecls  == <<DName("NAM0", TByte(7))>> \o DMeth("MTH0", 0) \o DMeth("MTH1", 1)
             \o <<[k |-> "open", kind |-> "Device", f |-> F(FALSE, 0, <<"DEV0">>), w |-> 1, args |-> <<>>], DName("NAM1", TByte(1)), [k |-> "close"]>>
PreBody   == <<DName("NAM0", TByte(7)), [k |-> "decl", kind |-> "Mutex", f |-> F(FALSE, 0, <<"MUT0">>), args |-> <<TByte(0)>>],
               [k |-> "decl", kind |-> "Event", f |-> F(FALSE, 0, <<"EVT0">>), args |-> <<>>],
               [k |-> "open", kind |-> "Device", f |-> F(FALSE, 0, <<"DEV0">>), w |-> 1, args |-> <<>>], [k |-> "close"],
               [k |-> "scope", f |-> F(TRUE, 0, <<"_SB_">>), w |-> 1],
               [k |-> "open", kind |-> "Device", f |-> F(FALSE, 0, <<"DEV1">>), w |-> 1, args |-> <<>>],
               [k |-> "decl", kind |-> "Mutex", f |-> F(FALSE, 0, <<"MUT1">>), args |-> <<TByte(2)>>],
               [k |-> "open", kind |-> "Device", f |-> F(FALSE, 0, <<"DEV2">>), w |-> 1, args |-> <<>>], [k |-> "close"],
               [k |-> "close"], [k |-> "close"]>>
             \o DMeth("MTH0", 0) \o DMeth("MTH1", 1) \o DMeth("MTH2", 2)
             \o <<[k |-> "method", f |-> F(FALSE, 0, <<"MAIN">>), w |-> 2, flags |-> 1]>>

Fresh2 == <<"AAAA", "BBBB">>
Fresh3 == <<"AAAA", "BBBB", "CCCC">>
Fresh4 == <<"AAAA", "BBBB", "CCCC", "DDDD">>
Fresh5 == <<"AAAA", "BBBB", "CCCC", "DDDD", "EEEE">>
Fresh6 == <<"AAAA", "BBBB", "CCCC", "DDDD", "EEEE", "F123">>
Fresh7 == <<"AAAA", "BBBB", "CCCC", "DDDD", "EEEE", "F123", "G___">>

\* the loader's own properties hold for every program prefix
LoaderSoundX == /\ TreeShaped(st) /\ StackSound(st) /\ CallsSoundX(st) /\ AliasSound(st) /\ BodiesBalanced(st) /\ XsSound(st)
                /\ st = LoadX(toks) /\ Len(st.xstk) = Len(st.stack)
\* leg G: every complete program goes to the Go harness
EmitProg == (Emit /\ IsComplete) => CSVWrite("%1$s", <<ToJson([toks |-> toks])>>, IOEnv.CASES)
====
