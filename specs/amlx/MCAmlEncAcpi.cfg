CONSTANTS Part = "codec" Scope = "quick" Emit = FALSE Bug = "" EncDevs = {}
INIT Init
NEXT Next
INVARIANT AcpiAgrees
CHECK_DEADLOCK FALSE
