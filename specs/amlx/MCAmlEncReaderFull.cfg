CONSTANTS Part = "reader" Scope = "full" Emit = TRUE Bug = "" EncDevs = {"NameCharsUnchecked", "MultiNameLenWraps"}
INIT Init
NEXT Next
INVARIANT ReaderOK
INVARIANT NoReadPastEnd
INVARIANT EmitCase
CHECK_DEADLOCK FALSE
