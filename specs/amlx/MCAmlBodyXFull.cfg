CONSTANTS
  Prelude <- PreBody
  Fresh <- Fresh2
  PreScopes = {"_SB_"}
  MaxProd = 3  MaxTables = 1  MaxDepth = 1
  Decls = {}
  Forms = {}
  Values = {}
  Stmts = {"call", "calloplast", "store"}  MaxStmts = 3
  Devs = {"IndexFieldNamed", "AliasKeepsSourceName", "ExternalIsObject", "CreateFieldNotNamed", "PackageMethodRefInvoked", "VarPackageCountByte", "MatchOperatorBytes", "LoadTableSevenOperands", "IfBodyFlattened", "RelPathInTerm", "ValueNamesFromFinalPlace", "EmptyBufferInDeferred"}
  Excluded = {"D1", "D1b", "D2", "D2c", "D3", "D5", "D6", "D7", "D9", "IndexFieldNamed", "AliasKeepsSourceName", "ExternalIsObject", "CreateFieldNotNamed", "PackageMethodRefInvoked", "VarPackageCountByte", "MatchOperatorBytes", "LoadTableSevenOperands", "IfBodyFlattened", "RelPathInTerm", "ValueNamesFromFinalPlace", "EmptyBufferInDeferred", "InvisibleCallee", "MethodAsRef", "HiddenNameInDeferred", "BankFieldUnitInDeferred"}
  Emit = FALSE  Bug = ""
INIT Init
NEXT Next
INVARIANT BodyRefines
CHECK_DEADLOCK FALSE
