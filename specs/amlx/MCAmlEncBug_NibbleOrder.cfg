CONSTANTS Part = "codec" Scope = "quick" Emit = FALSE Bug = "NibbleOrder" EncDevs = {"NameCharsUnchecked", "MultiNameLenWraps"}
INIT Init
NEXT Next
INVARIANT RoundTrip
CHECK_DEADLOCK FALSE
