---- MODULE AmlEncTrace ----
(* extra-amlgrow, leg V of the byte level.  Every line is one case run on the real code:                *)
(*   [c (the case: value + encoding parameters, or a reader operation sequence), bytes (the stream the   *)
(*    real function was given), obs (what it returned)].                                                 *)
(* The monitor re-encodes the case with the ACPI definitions of AmlEnc (a stream that differs is a slip  *)
(* of the case generator: "GEN") and compares obs with what E1-E4 demand.                                *)
EXTENDS AmlEncModel, TraceLib
Trace == ndJsonDeserialize(IOEnv.TRACE)
EnvEncDevs == {d \in EncDevAll : IOEnv["ENCDEV_" \o d] = "1"}
VARIABLES l, mismatch
tvars == <<l, mismatch>>
RECURSIVE Run(_, _, _, _)
Run(r, data, ops, i) == IF i > Len(ops) THEN [r |-> r, res |-> <<>>]
                        ELSE LET s == ROp(r, data, ops[i])  t == Run(s.r, data, ops, i + 1) IN [r |-> t.r, res |-> <<s.res>> \o t.res]
Judge(e) ==
  IF e.c.k = "reader"
  THEN LET w == Run(R0(Len(e.c.data)), e.c.data, e.c.ops, 1) IN
       IF e.obs.res # w.res THEN <<l, "extra-amlgrow", <<"reader results differ", [want |-> w.res, got |-> e.obs.res]>>>>
       ELSE IF e.obs.r # w.r THEN <<l, "extra-amlgrow", <<"reader state differs", [want |-> w.r, got |-> e.obs.r]>>>>
       ELSE <<>>
  ELSE IF e.bytes # Stream(e.c) THEN <<l, "GEN", <<"stream is not the encoding of the case", [want |-> Stream(e.c), got |-> e.bytes]>>>>
  ELSE IF e.obs # Expected(e.c) THEN <<l, "extra-amlgrow", <<"decoded value differs", [case |-> e.c, want |-> Expected(e.c), got |-> e.obs]>>>>
  ELSE <<>>
TraceInit == l = 1 /\ mismatch = <<>> /\ c = NoCase /\ got = NoCase /\ steps = 0
TNext == /\ l <= Len(Trace) /\ mismatch = <<>>
         /\ l' = l + 1
         /\ mismatch' = Judge(Trace[l]) /\ Report(mismatch')
         /\ UNCHANGED <<c, got, steps>>
Accepted == TLCGet("stats").diameter - 1 = Len(Trace)
====
