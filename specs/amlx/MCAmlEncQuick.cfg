CONSTANTS Part = "codec" Scope = "quick" Emit = TRUE Bug = "" EncDevs = {"NameCharsUnchecked", "MultiNameLenWraps"}
INIT Init
NEXT Next
INVARIANT RoundTrip
INVARIANT EmitCase
CHECK_DEADLOCK FALSE
