CONSTANTS Part = "reader" Scope = "quick" Emit = FALSE Bug = "ReadPastPkgEnd" EncDevs = {"NameCharsUnchecked", "MultiNameLenWraps"}
INIT Init
NEXT Next
INVARIANT NoReadPastEnd
CHECK_DEADLOCK FALSE
