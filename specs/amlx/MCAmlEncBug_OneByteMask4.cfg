CONSTANTS Part = "codec" Scope = "quick" Emit = FALSE Bug = "OneByteMask4" EncDevs = {"NameCharsUnchecked", "MultiNameLenWraps"}
INIT Init
NEXT Next
INVARIANT RoundTrip
CHECK_DEADLOCK FALSE
