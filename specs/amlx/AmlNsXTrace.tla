---- MODULE AmlNsXTrace ----
(* extra-amlgrow trace monitor.  Every line of the trace is one program run on the real parser:     *)
(*   [id, toks (the token stream), obs (projection of the tree the parser built)].                  *)
(* The monitor loads the token stream with the loader of AmlNsX and judges the observation.         *)
(* Mode "strict": generated programs; they must be complete, well-formed and free of every trigger   *)
(*   construct (open findings of C11 and kind-B deviations): else the GENERATOR is broken, reported   *)
(*   as "GEN", which the runner turns into exit 2, never into a violation.                           *)
(* Mode "filter": seeded random programs (leg T): a program that is ill formed or uses a trigger     *)
(*   construct is SKIPPED (one line <<"VERIF-SKIP", id, why>> each; the runner counts them and        *)
(*   demands that most programs are judged); all others are judged like in strict mode.              *)
(* Mode "repro": pinned minimal programs of the deviations; judged by the same oracle, triggers      *)
(*   allowed; the verdict of every line is printed (<<id, verdict, filter reason>>).                  *)
(* The active deviation switches come from the environment (DEV_<name> = 1).                         *)
EXTENDS AmlNsX, Json, IOUtils, TraceLib
CONSTANT Mode
Trace == ndJsonDeserialize(IOEnv.TRACE)
EnvDevs == {d \in DevAll : IOEnv["DEV_" \o d] = "1"}
C11Ids == {"D1", "D1b", "D2", "D2c", "D3", "D5", "D6", "D7", "D8", "D9"}
\* trigger ids of C11 findings that are still open, plus every trigger of this family (they only fire while their switch is on)
Open == {d \in C11Ids : IOEnv["OPEN_" \o d] = "1"} \cup DevAll \cup {"InvisibleCallee", "MethodAsRef", "HiddenNameInDeferred", "BankFieldUnitInDeferred"}

VARIABLES l, mismatch
vars == <<l, mismatch>>

Check(e) ==
  LET st == LoadX(e.toks) IN
  IF ~Complete(st, e.toks) THEN <<l, "GEN", <<"not a complete well-formed program", st.err>>>>
  ELSE IF Mode = "strict" /\ st.trig \cap Open # {} THEN <<l, "GEN", <<"program uses a construct that is left out of the generated language", st.trig \cap Open>>>>
  ELSE LET j == JudgeX(st, e.obs) IN IF j = <<>> THEN <<>> ELSE <<l, "extra-amlgrow", j>>

Filter(e) ==
  LET st == LoadX(e.toks) IN
  IF ~Complete(st, e.toks) THEN <<"ill-formed", st.err[1]>>
  ELSE IF st.trig \cap Open # {} THEN <<"trigger", st.trig \cap Open>>
  ELSE <<>>
Init == l = 1 /\ mismatch = <<>>
Next == /\ l <= Len(Trace) /\ mismatch = <<>>
        /\ l' = l + 1
        /\ CASE Mode = "strict" -> mismatch' = Check(Trace[l]) /\ Report(mismatch')
             [] Mode = "filter" -> LET why == Filter(Trace[l]) IN
                                  IF why = <<>> THEN mismatch' = Check(Trace[l]) /\ Report(mismatch')
                                  ELSE mismatch' = <<>> /\ PrintT(<<"VERIF-SKIP", ToJson(<<Trace[l].id, why>>)>>)
             [] OTHER -> mismatch' = <<>> /\ PrintT(<<"VERIF-REPRO", ToJson(<<Trace[l].id, Check(Trace[l]), Filter(Trace[l])>>)>>)
NoMismatch == mismatch = <<>>
Accepted == TLCGet("stats").diameter - 1 = Len(Trace)
====
