CONSTANTS Part = "codec" Scope = "quick" Emit = FALSE Bug = ""
CONSTANT EncDevs <- EnvEncDevs
INIT TraceInit
NEXT TNext
POSTCONDITION Accepted
CHECK_DEADLOCK FALSE
