---- MODULE AmlEncModel ----
(* extra-amlgrow, legs M/G of the byte level.  Part "codec": every case of the scope (a value with its *)
(* encoding parameters) is encoded by the ACPI definitions of AmlEnc, decoded by a DESIGN decoder that *)
(* is written the way the parser reads (shift and mask, offsets), and the invariant RoundTrip says     *)
(* the two agree with what the property statements E1-E3 demand (Expected).  Part "reader": the       *)
(* reachable states of the package-bounded reader under every short operation sequence.  Every case   *)
(* is emitted for the Go harness, which feeds the BYTES to the real functions.                         *)
EXTENDS AmlEnc, Json, IOUtils, CSV
CONSTANTS Part,      \* "codec" | "reader"
          Scope,     \* "quick" | "full"
          Emit, Bug
VARIABLES c, got, steps
vars == <<c, got, steps>>

(* ------------------------------------------------------------------ cases *)
Seg(k) == <<65 + (k % 26), 48 + (k % 10), 95, 65 + ((k * 7) % 26)>>        \* a valid segment: letter, digit, '_', letter
Segs(n) == [i \in 1..n |-> Seg(i)]
Tails == IF Scope = "quick" THEN {<<>>, <<65, 92, 46>>} ELSE {<<>>, <<0>>, <<65, 92, 46>>, <<47, 255>>}
PkgVals == {0, 1, 62, 63, 64, 65, 255, 256, 4094, 4095, 4096, 4097, 65535, 65536, 1048575, 1048576, 1048577, 16777215, 16777216, 268435455}
           \cup (IF Scope = "full" THEN {v * 17 + 5 : v \in 0..400} \cup {Pow2(k) - 1 : k \in 1..28} \cup {Pow2(k) : k \in 1..27} ELSE {})
PkgCases == UNION {{[k |-> "pkglen", v |-> v, w |-> w, tail |-> t, cut |-> 0] : w \in {x \in 1..4 : WidthOK(v, x)}, t \in Tails} : v \in PkgVals}
            \cup UNION {{[k |-> "pkglen", v |-> v, w |-> w, tail |-> <<>>, cut |-> cu] : w \in {x \in 2..4 : WidthOK(v, x)}, cu \in 1..3} : v \in {64, 4096, 1048576, 268435455}}
SegCounts == IF Scope = "quick" THEN {0, 1, 2, 3, 255} ELSE {0, 1, 2, 3, 4, 64, 65, 90, 95, 254, 255}
\* bad: 0 fine, 1 SegCount 0 (multi form), 2 lead character of the first segment is a digit, 3 a character of the first segment is '!', 4 lead character of the second segment is lower case
NameCases == {[k |-> "name", abs |-> a, carets |-> ca, nseg |-> n, multi |-> m, bad |-> 0, tail |-> t, cut |-> 0]
                : a \in BOOLEAN, ca \in 0..2, n \in SegCounts, m \in BOOLEAN, t \in Tails}
             \cup {[k |-> "name", abs |-> a, carets |-> 1, nseg |-> n, multi |-> n > 2, bad |-> b, tail |-> <<>>, cut |-> 0]
                : a \in BOOLEAN, n \in {1, 2, 3}, b \in {2, 3, 4}}
             \cup {[k |-> "name", abs |-> FALSE, carets |-> 0, nseg |-> 0, multi |-> TRUE, bad |-> 1, tail |-> <<65, 65, 65, 65>>, cut |-> 0]}
             \cup {[k |-> "name", abs |-> a, carets |-> 1, nseg |-> n, multi |-> m, bad |-> 0, tail |-> <<>>, cut |-> cu]
                : a \in BOOLEAN, n \in {0, 1, 2, 3}, m \in BOOLEAN, cu \in {1, 2, 5}}
ConstCases == {[k |-> "const", kind |-> kd, limbs |-> <<>>, chars |-> <<>>, tail |-> t, cut |-> 0] : kd \in {"zero", "one", "ones"}, t \in Tails}
              \cup {[k |-> "const", kind |-> "byte", limbs |-> <<v>>, chars |-> <<>>, tail |-> t, cut |-> cu] : v \in {0, 1, 127, 128, 255}, t \in {<<>>, <<7>>}, cu \in {0, 1}}
              \cup {[k |-> "const", kind |-> "word", limbs |-> <<v>>, chars |-> <<>>, tail |-> <<>>, cut |-> cu] : v \in {0, 1, 255, 256, 32767, 32768, 65535, 4660}, cu \in {0, 1, 2}}
              \cup {[k |-> "const", kind |-> "dword", limbs |-> <<h, l>>, chars |-> <<>>, tail |-> <<9>>, cut |-> cu] : h \in {0, 1, 32768, 65535, 4660}, l \in {0, 65535, 22136}, cu \in {0}}
              \cup {[k |-> "const", kind |-> "dword", limbs |-> <<4660, 22136>>, chars |-> <<>>, tail |-> <<>>, cut |-> cu] : cu \in {1, 3, 4}}
              \cup {[k |-> "const", kind |-> "qword", limbs |-> <<a, 4660, 22136, b>>, chars |-> <<>>, tail |-> <<>>, cut |-> cu] : a \in {0, 32768, 65535}, b \in {0, 1, 65535}, cu \in {0, 1, 8}}
              \cup {[k |-> "const", kind |-> "string", limbs |-> <<>>, chars |-> ch, tail |-> t, cut |-> cu]
                      : ch \in {<<>>, <<65>>, <<1, 127, 32, 126>>, <<92, 95, 83, 66>>, <<65, 128, 66>>, <<255>>}, t \in {<<>>, <<65, 0>>}, cu \in {0, 1}}
ReaderDatas == IF Scope = "quick" THEN {<<>>, <<7, 8>>} ELSE {<<>>, <<7>>, <<7, 8, 9>>}
ReaderOps == {[op |-> o, a |-> 0] : o \in {"read", "peek", "unread", "eof"}} \cup {[op |-> o, a |-> a] : o \in {"seek", "setend"}, a \in 0..4}
MaxOps == IF Scope = "quick" THEN 2 ELSE 3

(* ------------------------------------------------------------------ encoding of a case (ACPI definitions) and what must come back *)
BadSegs(n, bad) == [i \in 1..n |-> IF bad = 2 /\ i = 1 THEN <<49, 66, 67, 68>> ELSE IF bad = 3 /\ i = 1 THEN <<65, 33, 67, 68>>
                                   ELSE IF bad = 4 /\ i = 2 THEN <<97, 66, 67, 68>> ELSE Seg(i)]
FormOf(x) == [abs |-> x.abs, carets |-> x.carets, segs |-> BadSegs(x.nseg, x.bad)]
Enc(x) == CASE x.k = "pkglen" -> EncPkgLen(x.v, x.w)
            [] x.k = "name"   -> IF x.bad = 1 THEN PrefixBytes(FormOf(x)) \o <<MultiPrefix, 0>> ELSE EncName(FormOf(x), x.multi)
            [] x.k = "const"  -> EncConst(x.kind, x.limbs, x.chars)
Cut(bs, n) == SubSeq(bs, 1, Len(bs) - n)
Stream(x) == IF x.cut > 0 THEN Cut(Enc(x), x.cut) ELSE Enc(x) \o x.tail
\* bad names: is the name still acceptable under the active deviation?  (bad 2 with a single segment is always rejected)
NameRejected(x) == \/ x.bad = 1
                   \/ (x.nseg = 0 /\ x.multi)
                   \/ (x.bad = 2 /\ ((x.nseg = 1 /\ ~x.multi) \/ ~Dev_NameCharsUnchecked))
                   \/ (x.bad = 3 /\ ~Dev_NameCharsUnchecked)
                   \/ (x.bad = 4 /\ x.nseg >= 2 /\ ~Dev_NameCharsUnchecked)
StringBad(x) == \E i \in 1..Len(x.chars) : x.chars[i] >= 128 \/ x.chars[i] = 0
Expected(x) ==
  CASE x.k = "pkglen" -> IF x.cut > 0 THEN [ok |-> FALSE] ELSE [ok |-> TRUE, v |-> x.v, n |-> x.w]
    [] x.k = "name"   -> LET e == Enc(x)
                             multiform == x.bad # 1 /\ (x.multi \/ x.nseg > 2)
                             \* length that is read: all of it - or, with the 8-bit product of the pinned parser, prefixes + 2 + (4 * SegCount) mod 256
                             rd == IF Dev_MultiNameLenWraps /\ multiform THEN Len(PrefixBytes(FormOf(x))) + 2 + ((4 * x.nseg) % 256) ELSE Len(e) IN
                         IF NameRejected(x) \/ Len(Stream(x)) < rd THEN [ok |-> FALSE]
                         ELSE [ok |-> TRUE, name |-> IF x.nseg = 0 THEN Cut(e, 1) ELSE SubSeq(e, 1, rd), n |-> rd]
    [] x.k = "const"  -> IF x.cut > 0 \/ (x.kind = "string" /\ StringBad(x)) THEN [ok |-> FALSE]
                         ELSE [ok |-> TRUE, kind |-> x.kind, limbs |-> x.limbs, chars |-> x.chars, n |-> Len(Enc(x))]

(* ------------------------------------------------------------------ the design decoder (reads like the parser) *)
DPkgLen(bs) ==
  IF bs = <<>> THEN [ok |-> FALSE]
  ELSE LET lead == bs[1]
           follow == lead \div 64
           nib == lead % 16 IN
       IF Len(bs) < 1 + follow THEN [ok |-> FALSE]
       ELSE CASE follow = 0 -> [ok |-> TRUE, v |-> IF Bug = "OneByteMask4" THEN lead % 16 ELSE lead, n |-> 1]
              [] follow = 1 -> [ok |-> TRUE, v |-> IF Bug = "NibbleOrder" THEN nib * 256 + bs[2] ELSE bs[2] * 16 + nib, n |-> 2]
              [] follow = 2 -> [ok |-> TRUE, v |-> IF Bug = "NibbleOrder" THEN nib * 65536 + bs[3] * 256 + bs[2] ELSE bs[3] * 4096 + bs[2] * 16 + nib, n |-> 3]
              [] follow = 3 -> [ok |-> TRUE, v |-> bs[4] * 1048576 + bs[3] * 4096 + bs[2] * 16 + nib, n |-> 4]
DName(bs) ==
  LET i == SkipPrefix(bs, 1) IN
  IF i > Len(bs) THEN [ok |-> FALSE]
  ELSE LET nx == bs[i] IN
       CASE nx = 0 -> [ok |-> TRUE, name |-> SubSeq(bs, 1, i - 1), n |-> i]
         [] nx = DualPrefix -> IF i + 8 > Len(bs) THEN [ok |-> FALSE] ELSE [ok |-> TRUE, name |-> SubSeq(bs, 1, i + 8), n |-> i + 8]
         [] nx = MultiPrefix -> IF i + 1 > Len(bs) \/ bs[i + 1] = 0 THEN [ok |-> FALSE]
                                ELSE LET cnt == IF Bug = "SegLenWraps8" \/ Dev_MultiNameLenWraps THEN (4 * bs[i + 1]) % 256 ELSE 4 * bs[i + 1]
                                         e == (IF Bug = "SegCountNotSkipped" THEN i ELSE i + 1) + cnt IN
                                     IF e > Len(bs) THEN [ok |-> FALSE] ELSE [ok |-> TRUE, name |-> SubSeq(bs, 1, e), n |-> e]
         [] OTHER -> IF ~LeadOK(nx) \/ i + 3 > Len(bs) THEN [ok |-> FALSE] ELSE [ok |-> TRUE, name |-> SubSeq(bs, 1, i + 3), n |-> i + 3]
DConst(bs) ==
  IF bs = <<>> THEN [ok |-> FALSE]
  ELSE LET kinds == {kd \in {"zero", "one", "ones", "byte", "word", "dword", "qword", "string"} : Prefix(kd) = bs[1]} IN
       IF kinds = {} THEN [ok |-> FALSE]
       ELSE LET kd == CHOOSE x \in kinds : TRUE  rest == Tail(bs) IN
            IF kd = "string" THEN LET r == DecString(rest) IN IF r.ok THEN [ok |-> TRUE, kind |-> kd, limbs |-> <<>>, chars |-> r.chars, n |-> 1 + r.n] ELSE [ok |-> FALSE]
            ELSE IF DataBytes(kd) = 0 THEN [ok |-> TRUE, kind |-> kd, limbs |-> <<>>, chars |-> <<>>, n |-> 1]
            ELSE LET r == DecData(rest, kd) IN IF r.ok THEN [ok |-> TRUE, kind |-> kd, limbs |-> r.limbs, chars |-> <<>>, n |-> 1 + r.n] ELSE [ok |-> FALSE]
Design(x) == CASE x.k = "pkglen" -> DPkgLen(Stream(x)) [] x.k = "name" -> DName(Stream(x)) [] x.k = "const" -> DConst(Stream(x))
\* the ACPI-style decoders of AmlEnc, in the same result shape
Acpi(x) == CASE x.k = "pkglen" -> LET r == DecPkgLen(Stream(x)) IN IF r.ok THEN [ok |-> TRUE, v |-> r.v, n |-> r.n] ELSE [ok |-> FALSE]
             [] x.k = "name"   -> LET r == DecName(Stream(x)) IN IF r.ok THEN [ok |-> TRUE, name |-> r.name, n |-> r.n] ELSE [ok |-> FALSE]
             [] x.k = "const"  -> DConst(Stream(x))

(* ------------------------------------------------------------------ behaviours *)
NoCase == [k |-> "none"]
InitCodec == /\ c \in PkgCases \cup NameCases \cup ConstCases /\ got = NoCase /\ steps = 0
NextCodec == /\ steps = 0 /\ got' = Design(c) /\ steps' = 1 /\ UNCHANGED c
\* reader: c = [k "reader", data, ops, r, res (results so far)]
RStep(r, data, o) == IF Bug = "ReadPastPkgEnd" /\ o.op = "read" /\ r.off >= r.end /\ r.off < r.len
                     THEN [r |-> [r EXCEPT !.off = @ + 1], res |-> <<"ok", data[r.off + 1]>>] ELSE ROp(r, data, o)
InitReader == /\ \E d \in ReaderDatas : c = [k |-> "reader", data |-> d, ops |-> <<>>, r |-> R0(Len(d)), res |-> <<>>]
              /\ got = NoCase /\ steps = 0
NextReader == /\ steps < MaxOps
              /\ \E o \in ReaderOps : LET s == RStep(c.r, c.data, o) IN
                   c' = [c EXCEPT !.ops = Append(@, o), !.r = s.r, !.res = Append(@, s.res)]
              /\ steps' = steps + 1 /\ UNCHANGED got
Init == IF Part = "codec" THEN InitCodec ELSE InitReader
Next == IF Part = "codec" THEN NextCodec ELSE NextReader

(* ------------------------------------------------------------------ properties *)
\* E1-E3: the design decoder and the ACPI definitions both return what the statements demand
RoundTrip == (Part = "codec" /\ steps = 1) => got = Expected(c)
\* the definitions of AmlEnc themselves (no deviation switched on) return what the statements demand
AcpiAgrees == (Part = "codec" /\ steps = 1 /\ EncDevs = {}) => Acpi(c) = Expected(c)
\* E4
ReaderOK == Part = "reader" => /\ ReaderSound(c.r)
                               /\ \A i \in 1..Len(c.ops) : (c.ops[i].op \in {"read", "peek"} /\ c.res[i][1] = "ok") => c.res[i][2] \in {c.data[j] : j \in 1..Len(c.data)}
\* a successful read never comes from at or after the package end: replay the recorded operations
RECURSIVE Replay(_, _, _, _)
Replay(r, data, ops, i) == IF i > Len(ops) THEN TRUE
                           ELSE LET s == ROp(r, data, ops[i]) IN
                                /\ (ops[i].op = "read" /\ r.off >= r.end) => s.res = <<"err">>
                                /\ Replay(s.r, data, ops, i + 1)
RECURSIVE StateAt(_, _)
StateAt(x, i) == IF i = 0 THEN R0(Len(x.data)) ELSE ROp(StateAt(x, i - 1), x.data, x.ops[i]).r
ResAt(x, i) == ROp(StateAt(x, i - 1), x.data, x.ops[i]).res
NoReadPastEnd == Part = "reader" => (c.res = [i \in 1..Len(c.ops) |-> ResAt(c, i)])
\* leg G
EmitCase == (Emit /\ (IF Part = "codec" THEN steps = 0 ELSE steps > 0)) =>
              CSVWrite("%1$s", <<ToJson(IF Part = "codec" THEN [c |-> c, bytes |-> Stream(c)] ELSE [c |-> [k |-> "reader", data |-> c.data, ops |-> c.ops], bytes |-> c.data])>>, IOEnv.CASES)
====
