---- MODULE MCAmlBodyX ----
(* extra-amlgrow, leg M: the generator of MCAmlNsX with the invariant BodyRefines - the abstract model   *)
(* of the parser's operand-collection passes (AmlBodyImpl) rebuilds, for every straight-line method body *)
(* of every complete generated program, exactly the statement list the specification renders.  With the  *)
(* trigger XD5 ("D5") taken out of Excluded, or with a design mutant (Bug), TLC must find a counterexample. *)
EXTENDS MCAmlNsX, AmlBodyImpl
Straight(b) == \A i \in 1..Len(b) : b[i].k = "stmt"
BodyRefines ==
  IsComplete => \A p \in Methods(st) :
                  LET b == BodyOf(st, p) IN
                  Straight(b) => Rebuild([i \in 1..Len(b) |-> b[i].x[1]], Bug) = [i \in 1..Len(b) |-> b[i].x[1]]
====
