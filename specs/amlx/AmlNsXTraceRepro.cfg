CONSTANT Mode = "repro"
CONSTANT Devs <- EnvDevs
INIT Init
NEXT Next
POSTCONDITION Accepted
CHECK_DEADLOCK FALSE
