---- MODULE AmlEnc ----
(* extra-amlgrow, byte level: the AML ENCODING of the pieces every production is made of (ACPI 6.2   *)
(* section 20.2.2-20.2.4), as pure operators over byte sequences, and the package-bounded stream      *)
(* reader they are read with.                                                                         *)
(*                                                                                                    *)
(* PROPERTY STATEMENTS                                                                                *)
(*  E1  PkgLength: a length v < 2^28 written with w bytes (1 <= w <= 4, w = 1 only for v < 64) is read  *)
(*      back as exactly v, consuming exactly w bytes, whatever follows; an encoding that is cut off by   *)
(*      the end of the enclosing package is rejected.                                                   *)
(*  E2  NameString: root / parent prefixes followed by the null name, one segment, the dual-name or the  *)
(*      multi-name prefix with 1..255 segments is read as exactly its own bytes (a null name after a     *)
(*      prefix is dropped from the returned name), consuming exactly its length; SegCount 0, a segment   *)
(*      that does not start with 'A'-'Z' or '_' and an encoding cut off by the package end are rejected. *)
(*  E3  Constants and strings: ByteData / WordData / DWordData / QWordData are little endian; the       *)
(*      constant prefixes 0x00 0x01 0xFF 0x0A 0x0B 0x0C 0x0E 0x0D select Zero One Ones Byte Word DWord   *)
(*      QWord String; a string is its ASCII characters (0x01-0x7F) up to the terminating 0x00 and is     *)
(*      rejected when a byte >= 0x80 or the package end comes first.                                    *)
(*  E4  Reader: ReadByte/PeekByte never return a byte at or after the package end and never move past    *)
(*      it; SetOffset clamps to the stream length; SetPkgEnd refuses an end beyond the stream.           *)
(* Values are naturals below 2^31 (TLC) except QWord data, which travel as four 16-bit limbs.           *)
EXTENDS Integers, Sequences, FiniteSets, TLC

\* deviation switches of this module (see AmlNsX.tla for the convention)
CONSTANT EncDevs
\* A  only the lead character of a SINGLE-segment name is checked; the other three characters of a segment (ACPI: 'A'-'Z', '0'-'9',
\*    '_') and all characters of the segments of a dual / multi name are accepted as they come.  By design the parser leaves this to
\*    the consumers of the name; malformed input is C12's domain.
Dev_NameCharsUnchecked == "NameCharsUnchecked" \in EncDevs
\* A  parseNameString multiplies the segment count of a multi-name path by 4 IN EIGHT BITS: from 64 segments on the length wraps
\*    (64 -> 0, 65 -> 4, 255 -> 252 bytes); the name that is returned is cut short and the rest of the path is read as the AML that
\*    follows.  Genuine defect (blatant, one line): fixes/extra-amlgrow-multiname-length-wrap.patch.
Dev_MultiNameLenWraps == "MultiNameLenWraps" \in EncDevs
EncDevAll == {"NameCharsUnchecked", "MultiNameLenWraps"}

Pow2(n) == 2 ^ n
Byte(v, i) == (v \div Pow2(8 * i)) % 256           \* i-th byte of v, little endian

(* ------------------------------------------------------------------ PkgLength *)
PkgMax(w) == IF w = 1 THEN 63 ELSE Pow2(4 + 8 * (w - 1)) - 1
MinWidth(v) == IF v <= 63 THEN 1 ELSE IF v <= 4095 THEN 2 ELSE IF v <= 1048575 THEN 3 ELSE 4
\* ACPI: bits 7-6 of the lead byte = number of following bytes; one-byte form: bits 5-0 = length; else bits 3-0 = least
\* significant nibble and the following bytes the next least significant bytes
EncPkgLen(v, w) ==
  IF w = 1 THEN <<v>>
  ELSE <<((w - 1) * 64) + (v % 16)>> \o [i \in 1..(w - 1) |-> Byte(v \div 16, i - 1)]
WidthOK(v, w) == w \in 1..4 /\ v >= 0 /\ v <= PkgMax(w) /\ (w = 1 => v <= 63)
\* decoding as ACPI defines it; bs = bytes up to the package end.  Returns [ok, v, n (bytes consumed)]
FailDec == [ok |-> FALSE, v |-> 0, n |-> 0]
RECURSIVE SumBytes(_, _, _)
SumBytes(bs, from, k) == IF k = 0 THEN 0 ELSE bs[from] + 256 * SumBytes(bs, from + 1, k - 1)
DecPkgLen(bs) ==
  IF bs = <<>> THEN FailDec
  ELSE LET follow == bs[1] \div 64 IN
       IF Len(bs) < 1 + follow THEN FailDec
       ELSE IF follow = 0 THEN [ok |-> TRUE, v |-> bs[1] % 64, n |-> 1]
       ELSE [ok |-> TRUE, v |-> (bs[1] % 16) + 16 * SumBytes(bs, 2, follow), n |-> 1 + follow]

(* ------------------------------------------------------------------ NameString *)
\* form = [abs BOOLEAN, carets Nat, segs Seq(segment)]; a segment is a sequence of 4 byte values
Root == 92  Caret == 94  DualPrefix == 46  MultiPrefix == 47
LeadOK(c) == (c >= 65 /\ c <= 90) \/ c = 95
NameCharOK(c) == LeadOK(c) \/ (c >= 48 /\ c <= 57)
SegOK(s, single) == Len(s) = 4 /\ (LeadOK(s[1]) \/ (Dev_NameCharsUnchecked /\ ~single)) /\ (Dev_NameCharsUnchecked \/ \A i \in 2..4 : NameCharOK(s[i]))
RECURSIVE Flat(_)
Flat(ss) == IF ss = <<>> THEN <<>> ELSE Head(ss) \o Flat(Tail(ss))
PrefixBytes(f) == (IF f.abs THEN <<Root>> ELSE <<>>) \o [i \in 1..f.carets |-> Caret]
\* multi = TRUE forces the multi-name prefix also for 1 or 2 segments (legal, only longer)
EncName(f, multi) ==
  PrefixBytes(f) \o
  (IF f.segs = <<>> /\ ~multi THEN <<0>>
   ELSE IF Len(f.segs) = 1 /\ ~multi THEN f.segs[1]
   ELSE IF Len(f.segs) = 2 /\ ~multi THEN <<DualPrefix>> \o Flat(f.segs)
   ELSE <<MultiPrefix, Len(f.segs)>> \o Flat(f.segs))
\* what reading a name yields: [ok, name (the bytes of the name as stored in the tree), n (bytes consumed)]
\* bs = bytes up to the package end
RECURSIVE SkipPrefix(_, _)
SkipPrefix(bs, i) == IF i <= Len(bs) /\ bs[i] \in {Root, Caret} THEN SkipPrefix(bs, i + 1) ELSE i
SegsAt(bs, i, k) == [j \in 1..k |-> SubSeq(bs, i + 4 * (j - 1), i + 4 * j - 1)]
FailName == [ok |-> FALSE, name |-> <<>>, n |-> 0]
DecName(bs) ==
  LET i == SkipPrefix(bs, 1) IN                   \* index of the first byte after the prefixes
  IF i > Len(bs) THEN FailName
  ELSE LET c == bs[i]
           body(k, from) ==                        \* k segments starting at index `from`
             IF from + 4 * k - 1 > Len(bs) THEN FailName
             ELSE IF \E j \in 1..k : ~SegOK(SegsAt(bs, from, k)[j], from = i) THEN FailName
             ELSE [ok |-> TRUE, name |-> SubSeq(bs, 1, from + 4 * k - 1), n |-> from + 4 * k - 1] IN
       CASE c = 0 -> [ok |-> TRUE, name |-> SubSeq(bs, 1, i - 1), n |-> i]    \* null name: the terminator is not part of the name
         [] c = DualPrefix -> body(2, i + 1)
         [] c = MultiPrefix -> IF i + 1 > Len(bs) \/ bs[i + 1] = 0 THEN FailName ELSE body(bs[i + 1], i + 2)
         [] OTHER -> body(1, i)

(* ------------------------------------------------------------------ constants and strings *)
\* kind in {"zero","one","ones","byte","word","dword","qword","string"}; integer values as limbs (most significant first)
Prefix(kind) == CASE kind = "zero" -> 0 [] kind = "one" -> 1 [] kind = "ones" -> 255 [] kind = "byte" -> 10 [] kind = "word" -> 11
                  [] kind = "dword" -> 12 [] kind = "qword" -> 14 [] kind = "string" -> 13
DataBytes(kind) == CASE kind = "byte" -> 1 [] kind = "word" -> 2 [] kind = "dword" -> 4 [] kind = "qword" -> 8 [] OTHER -> 0
\* limbs (16 bit, most significant first) <-> little-endian bytes
LimbBytes(limbs) == Flat([i \in 1..Len(limbs) |-> <<limbs[Len(limbs) + 1 - i] % 256, limbs[Len(limbs) + 1 - i] \div 256>>])
EncData(kind, limbs) == IF kind = "byte" THEN <<limbs[1]>> ELSE LimbBytes(limbs)
EncConst(kind, limbs, chars) ==
  <<Prefix(kind)>> \o (IF kind = "string" THEN chars \o <<0>> ELSE IF DataBytes(kind) = 0 THEN <<>> ELSE EncData(kind, limbs))
\* reading n bytes of data: [ok, limbs, n]
DecData(bs, kind) ==
  LET n == DataBytes(kind) IN
  IF Len(bs) < n THEN [ok |-> FALSE, limbs |-> <<>>, n |-> 0]
  ELSE [ok |-> TRUE, n |-> n,
        limbs |-> IF kind = "byte" THEN <<bs[1]>> ELSE [i \in 1..(n \div 2) |-> bs[n - 2 * i + 1] + 256 * bs[n - 2 * i + 2]]]
\* reading a string: characters up to the terminator
RECURSIVE StrEnd(_, _)
StrEnd(bs, i) == IF i > Len(bs) THEN 0 ELSE IF bs[i] = 0 THEN i ELSE IF bs[i] >= 128 THEN 0 ELSE StrEnd(bs, i + 1)
DecString(bs) == LET e == StrEnd(bs, 1) IN IF e = 0 THEN [ok |-> FALSE, chars |-> <<>>, n |-> 0] ELSE [ok |-> TRUE, chars |-> SubSeq(bs, 1, e - 1), n |-> e]

(* ------------------------------------------------------------------ the package-bounded reader *)
\* r = [off, end (package end), len (stream length)]; data = the stream; every operation returns [r, res] with res = <<"ok", value>> or <<"err">>
R0(len) == [off |-> 0, end |-> len, len |-> len]
ROp(r, data, o) ==
  CASE o.op = "read"   -> IF r.off >= r.end THEN [r |-> r, res |-> <<"err">>] ELSE [r |-> [r EXCEPT !.off = @ + 1], res |-> <<"ok", data[r.off + 1]>>]
    [] o.op = "peek"   -> IF r.off >= r.end THEN [r |-> r, res |-> <<"err">>] ELSE [r |-> r, res |-> <<"ok", data[r.off + 1]>>]
    [] o.op = "unread" -> IF r.off = 0 THEN [r |-> r, res |-> <<"err">>] ELSE [r |-> [r EXCEPT !.off = @ - 1], res |-> <<"ok", 0>>]
    [] o.op = "eof"    -> [r |-> r, res |-> <<"ok", IF r.off >= r.end THEN 1 ELSE 0>>]
    [] o.op = "seek"   -> [r |-> [r EXCEPT !.off = IF o.a > r.len THEN r.len ELSE o.a], res |-> <<"ok", 0>>]
    [] o.op = "setend" -> IF o.a > r.len THEN [r |-> r, res |-> <<"err">>] ELSE [r |-> [r EXCEPT !.end = o.a], res |-> <<"ok", 0>>]
\* E4 as state predicates
ReaderSound(r) == r.off >= 0 /\ r.off <= r.len /\ r.end <= r.len
====
