---- MODULE AmlNsX ----
(* extra-amlgrow (DESIGN.md section 5 item 6): the ACPI namespace loader of C11 (snapshot AmlNsBase.tla,*)
(* extended READ-ONLY) grown towards the full AML opcode table.                                     *)
(*                                                                                                 *)
(* PROPERTY STATEMENTS                                                                             *)
(*  X1 (namespace).  After the tables of a well-formed program have been parsed in order, the tree  *)
(*     holds exactly the named objects ACPI's load rules give - now including DataTableRegion, the  *)
(*     field units of IndexField and BankField (in the enclosing scope, running bit offsets, with   *)
(*     the index/data resp. region/bank names and the bank value they were declared with), Alias,   *)
(*     External and buffer fields created by CreateXField at scope level - each at its absolute path *)
(*     with its argument values in order; every deviation of the pinned parser is a named switch     *)
(*     Dev_* below and the tree must then be exactly what the switch documents.                      *)
(*  X2 (executable code).  Every method body (and every scope's load-time statements) appears as     *)
(*     the same statement sequence with the same block structure (If / Else / While), every          *)
(*     operator with its operands in order, every name operand either kept as written or resolved    *)
(*     to the object the scoping rules designate, every invocation attached to the method the rules  *)
(*     designate with exactly its declared number of arguments - for Notify / Acquire / Release /    *)
(*     Signal / Wait / Reset / Match / LoadTable / CreateXField statements, Package with named        *)
(*     references, VarPackage, Buffer with a computed length and While loops.                        *)
(*  X3 (names).  A NameString means the same in every position that takes one (single segment,      *)
(*     dual and multi name prefix, root and parent prefixes).                                        *)
(*                                                                                                 *)
(* New tokens (see AmlNs.tla for the C11 ones):                                                     *)
(*   [k "decl", kind "DataRegion", f, args <<sig, oemid, oemtable>>]                                *)
(*   [k "ifield", f index, g data, w, flags, els]      IndexField(f, g, flags){els}                 *)
(*   [k "bfield", f region, g bank, x <<value>>, w, flags, els]   BankField(f, g, value, flags){els} *)
(*   [k "alias", g source, f alias]                    Alias(g, f)                                  *)
(*   [k "external", f, args <<type, argc>>]            External(f, type, argc)                      *)
(*   [k "cfield", kind, f, x]                          CreateXField(x.., f); kind = opcode name     *)
(*   [k "stmt", op "x", x <<term>>]                    expression statement (any operator term)     *)
(* New terms: [t "op", s, a] for every operator of OpSig (operands in order, targets last, a null   *)
(*   target left out); [t "varpackage", a <<count, elements..>>]; package elements and buffer        *)
(*   lengths may be names, invocations and operator terms.                                          *)
(*                                                                                                 *)
(* DEVIATIONS of the pinned parser (kernel/device/acpi/aml).  Each is a member of the constant set   *)
(* Devs; with the switch ON the specification describes what the code does (kind A) and/or leaves    *)
(* the construct out of the generated language through a trigger (kind B, like the open findings of  *)
(* C11); with the switch OFF it describes ACPI.  tools/checks/extra_amlgrow.py runs with the set     *)
(* that matches /repo, prints every active one with its minimal program and checks that program.     *)
EXTENDS AmlNsBase

CONSTANT Devs
DevAll == {"IndexFieldNamed", "AliasKeepsSourceName", "ExternalIsObject", "CreateFieldNotNamed", "PackageMethodRefInvoked",
           "VarPackageCountByte", "MatchOperatorBytes", "LoadTableSevenOperands", "IfBodyFlattened", "RelPathInTerm",
           "ValueNamesFromFinalPlace", "EmptyBufferInDeferred"}
\* A  IndexField is flagged "named" in the opcode table: the container gets the LAST SEGMENT OF THE INDEX NAME as its name and is
\*    relocated like a declaration of that name; the units keep only that last segment as their index name.  The units themselves
\*    land where ACPI says.  B: the container must not shadow the real index field (written in the scope where that field lives).
Dev_IndexFieldNamed         == "IndexFieldNamed" \in Devs
\* A  Alias(src, new): no object named `new` is created; the tree gets an Alias node named like the LAST SEGMENT OF src, placed like a
\*    declaration of src.  References to `new` stay unresolved.  B: invocations through an alias, aliases written in another scope than
\*    their source (the node would shadow the source there).
Dev_AliasKeepsSourceName    == "AliasKeepsSourceName" \in Devs
\* A  External(name, type, argc) creates a named object of kind External (ACPI: no namespace object).  B: an External that is reachable
\*    before the real object of that name, invocations of a name that only an External declares.
Dev_ExternalIsObject        == "ExternalIsObject" \in Devs
\* A  CreateXField at scope level creates no named object (ACPI: a buffer field object in the current scope); references to the
\*    field name stay unresolved.
Dev_CreateFieldNotNamed     == "CreateFieldNotNamed" \in Devs
\* A  a Package element that names a method becomes an INVOCATION of it (ACPI: a reference).  B: methods with arguments (the
\*    invocation swallows the following elements).
Dev_PackageMethodRefInvoked == "PackageMethodRefInvoked" \in Devs
\* A  VarPackage: the element count is read as ONE RAW BYTE (ACPI: a TermArg): a one-byte count term (ArgN, LocalN, Zero, One, Ones)
\*    shows up as its opcode value.  B: any longer count term (garbage elements or a rejected table).
Dev_VarPackageCountByte     == "VarPackageCountByte" \in Devs
\* A  outside a deferred block the two match-operator bytes of Match are parsed as opcodes: 0 (MTR) and 1 (MEQ) become the constants
\*    Zero and One.  B: operators 2..5 (MLE MLT MGE MGT) are rejected ("could not parse AML bytecode").
Dev_MatchOperatorBytes      == "MatchOperatorBytes" \in Devs
\* B  LoadTable is listed with SEVEN operands (ACPI: six): it swallows the next sibling (pinned by the repository's own
\*    parser-testsuite-DSDT.exp) or the table is rejected.
Dev_LoadTableSevenOperands  == "LoadTableSevenOperands" \in Devs
\* A  an If outside a deferred block gets no block of its own: (1) it keeps ONLY ITS FIRST body statement, the other statements of its
\*    body follow the If as its siblings (pinned by the repository's own .exp dumps); (2) its package end is stacked without a scope,
\*    so the parser's "package-end stack as deep as scope stack" test is off by one inside it: an Else block written inside the body
\*    of such an If does not end where it ends - it also takes the statements that follow it, up to the end of the enclosing If
\*    (st.d counts the package ends that are stacked without a scope).  Inside a While body the If is built completely.
Dev_IfBodyFlattened         == "IfBodyFlattened" \in Devs
\* A  a relative name with several segments that is an operand / package element is looked up among the children of its PARENT NODE
\*    and stays unresolved.  B: the same in a deferred block or as an invocation (table rejected / arguments left behind).
Dev_RelPathInTerm           == "RelPathInTerm" \in Devs
\* A  names inside the value of a declaration are resolved from the place where the object LANDS, not from the scope where it is
\*    written (st.lex remembers the latter).  B: invocations and Buffer lengths in the value of a declaration that is not written
\*    where it lands (the table may be rejected).
Dev_ValueNamesFromFinalPlace == "ValueNamesFromFinalPlace" \in Devs
\* B  a Buffer with an EMPTY initializer list that is read inside another deferred package (While predicate or body, BankField value,
\*    the length of another Buffer) takes the bytes that follow it, up to the end of that package, as its contents: its own
\*    package end is popped as soon as its length has been read.
Dev_EmptyBufferInDeferred   == "EmptyBufferInDeferred" \in Devs

(* ------------------------------------------------------------------ operators of the grammar *)
\* operand kinds as the parser's opcode table lists them: T TermArg, N SuperName/SimpleName/NameString, G Target, B/W/D byte/word/dword data
OpSig == [ Add |-> <<"T","T","G">>, Subtract |-> <<"T","T","G">>, Multiply |-> <<"T","T","G">>, And |-> <<"T","T","G">>, Or |-> <<"T","T","G">>,
           Xor |-> <<"T","T","G">>, ShiftLeft |-> <<"T","T","G">>, ShiftRight |-> <<"T","T","G">>, Mod |-> <<"T","T","G">>, Concat |-> <<"T","T","G">>,
           Index |-> <<"T","T","G">>, Divide |-> <<"T","T","G","G">>, Not |-> <<"T","G">>, ToInteger |-> <<"T","G">>, ToBuffer |-> <<"T","G">>,
           Mid |-> <<"T","T","T","G">>, LEqual |-> <<"T","T">>, LLess |-> <<"T","T">>, LGreater |-> <<"T","T">>, Land |-> <<"T","T">>, Lor |-> <<"T","T">>,
           Lnot |-> <<"T">>, DerefOf |-> <<"T">>, Return |-> <<"T">>, Sleep |-> <<"T">>, Stall |-> <<"T">>, Signal |-> <<"T">>,
           SizeOf |-> <<"N">>, ObjectType |-> <<"N">>, RefOf |-> <<"N">>, Increment |-> <<"N">>, Decrement |-> <<"N">>, Release |-> <<"N">>, Reset |-> <<"N">>,
           Notify |-> <<"N","T">>, Wait |-> <<"N","T">>, Acquire |-> <<"N","W">>, Store |-> <<"T","N">>, CopyObject |-> <<"T","N">>, CondRefOf |-> <<"N","G">>,
           Match |-> <<"T","B","T","B","T","T">>, LoadTable |-> <<"T","T","T","T","T","T">>,
           Break |-> <<>>, Continue |-> <<>>, BreakPoint |-> <<>>, Timer |-> <<>>, Revision |-> <<>> ]
KnownOp(s) == s \in DOMAIN OpSig
CreateKinds == {"CreateBitField", "CreateByteField", "CreateWordField", "CreateDWordField", "CreateQWordField", "CreateField"}
\* statement tokens of C11 as operator terms
StmtTerm(t) == CASE t.op = "ret"   -> [t |-> "op", s |-> "Return", a |-> t.x]
                 [] t.op = "store" -> [t |-> "op", s |-> "Store", a |-> t.x]
                 [] t.op = "inc"   -> [t |-> "op", s |-> "Increment", a |-> t.x]
                 [] t.op = "dec"   -> [t |-> "op", s |-> "Decrement", a |-> t.x]
                 [] OTHER          -> t.x[1]                          \* "call", "x"

(* ------------------------------------------------------------------ terms *)
HasA(x) == x.t \in {"call", "op", "package", "varpackage", "buffer"}
RECURSIVE NamesInX(_)                         \* name forms used inside a term (all positions)
NamesInX(x) == (IF x.t \in {"call", "ref"} THEN {x.f} ELSE {})
               \cup (IF HasA(x) THEN UNION {NamesInX(x.a[i]) : i \in 1..Len(x.a)} ELSE {})
\* grammar check of a term (the generators and the pinned programs must only use what the encoder and this module know)
RECURSIVE TermWF(_)
TermWF(x) ==
  CASE x.t \in {"zero", "one", "ones", "byte", "word", "dword", "qword", "string", "arg", "local"} -> TRUE
    [] x.t = "ref"  -> x.f.segs # <<>>
    [] x.t = "call" -> x.f.segs # <<>> /\ \A i \in 1..Len(x.a) : TermWF(x.a[i])
    [] x.t = "buffer" -> Len(x.a) = 1 /\ TermWF(x.a[1])
    [] x.t = "package" -> \A i \in 1..Len(x.a) : TermWF(x.a[i])
    [] x.t = "varpackage" -> Len(x.a) >= 1 /\ \A i \in 1..Len(x.a) : TermWF(x.a[i])
    [] x.t = "op" -> /\ KnownOp(x.s) /\ Len(x.a) <= Len(OpSig[x.s])
                     /\ \A i \in 1..Len(OpSig[x.s]) : i > Len(x.a) => OpSig[x.s][i] = "G"
                     /\ \A i \in 1..Len(x.a) : /\ TermWF(x.a[i])
                                               /\ OpSig[x.s][i] = "B" => x.a[i].t = "byte"
                                               /\ OpSig[x.s][i] = "W" => x.a[i].t = "word"
                                               /\ OpSig[x.s][i] = "D" => x.a[i].t = "dword"
    [] OTHER -> FALSE

(* ------------------------------------------------------------------ what the parser's tree can see *)
\* ns holds what ACPI says.  Entries the pinned tree does not hold as named objects:
Hidden(e) == \/ e.kind = "Alias" /\ Dev_AliasKeepsSourceName
             \/ e.kind \in CreateKinds /\ Dev_CreateFieldNotNamed
\* xs: tree-resident nodes that are no namespace objects (set of [p, kind, args]); exts: paths declared External (found by lookups
\* of the tree while Dev_ExternalIsObject)
ExtPseudo(st) == {[p |-> q, kind |-> "External", args |-> <<>>] : q \in {y \in st.exts : ~Has(st.ns, y)}}
Vis(st) == {e \in st.ns : ~Hidden(e)} \cup (IF Dev_ExternalIsObject THEN ExtPseudo(st) ELSE {})
\* an alias stands for its source object
Target(ns, p) == IF p # None /\ Has(ns, p) /\ Obj(ns, p).kind = "Alias" THEN Obj(ns, p).args[1].p ELSE p

(* ------------------------------------------------------------------ rendering: what the tree shows for a term *)
\* ctx "flat": the term is read by the first pass; "strict": inside a deferred block (While predicate and body, Buffer length,
\* BankField value), where every operand is parsed by its declared type.  An operand is TYPED when it is parsed by its declared
\* type: always in strict context, in flat context only before the first TermArg of its operator.
Typed(sig, i, ctx) == ctx = "strict" \/ \A j \in 1..i : sig[j] # "T"
AsName(f) == [t |-> "name", f |-> f]
OneByte(x) == CASE x.t = "arg" -> 104 + x.n[1] [] x.t = "local" -> 96 + x.n[1] [] x.t = "zero" -> 0 [] x.t = "one" -> 1 [] x.t = "ones" -> 255 [] OTHER -> -1
RelPath(f) == ~f.abs /\ f.carets = 0 /\ Len(f.segs) > 1
RECURSIVE Ren(_, _, _, _, _)                  \* vis namespace, full namespace, current scope, term, context
RenSeq(v, ns, cur, xs, ctx) == [i \in 1..Len(xs) |-> Ren(v, ns, cur, xs[i], ctx)]
RenRef(v, ns, cur, f) ==
  LET p == Lookup(v, cur, f) IN
  IF p = None \/ (RelPath(f) /\ Dev_RelPathInTerm) THEN AsName(f) ELSE [t |-> "ref", p |-> p]
Ren(v, ns, cur, x, ctx) ==
  CASE x.t = "ref"  -> RenRef(v, ns, cur, x.f)
    [] x.t = "call" -> [t |-> "call", p |-> Target(ns, Lookup(ns, cur, x.f)), a |-> RenSeq(v, ns, cur, x.a, ctx)]
    [] x.t = "buffer" -> [t |-> "buffer", a |-> <<Ren(v, ns, cur, x.a[1], "strict")>>, n |-> x.n]
    [] x.t = "package" ->
         [t |-> "package", n |-> x.n,
          a |-> [i \in 1..Len(x.a) |->
                  LET e == x.a[i] IN
                  IF e.t = "ref" /\ Dev_PackageMethodRefInvoked /\ Lookup(v, cur, e.f) # None /\ Obj(v, Lookup(v, cur, e.f)).kind = "Method"
                  THEN [t |-> "call", p |-> Lookup(v, cur, e.f), a |-> <<>>]
                  ELSE Ren(v, ns, cur, e, ctx)]]
    [] x.t = "varpackage" ->
         [t |-> "varpackage",
          a |-> <<IF Dev_VarPackageCountByte THEN [t |-> "byte", n |-> <<OneByte(x.a[1])>>] ELSE Ren(v, ns, cur, x.a[1], ctx)>>
                \o RenSeq(v, ns, cur, Tail(x.a), ctx)]
    [] x.t = "op" ->
         LET sig == OpSig[x.s] IN
         [t |-> "op", s |-> x.s,
          a |-> [i \in 1..Len(x.a) |->
                  LET o == x.a[i] IN
                  IF sig[i] \in {"N", "G"} /\ o.t = "ref" /\ Typed(sig, i, ctx) THEN AsName(o.f)
                  ELSE IF sig[i] = "B" /\ ~Typed(sig, i, ctx) /\ Dev_MatchOperatorBytes
                       THEN (IF o.n[1] = 0 THEN [t |-> "zero"] ELSE IF o.n[1] = 1 THEN [t |-> "one"] ELSE [t |-> "op", s |-> "rejected", a |-> <<>>])
                  ELSE Ren(v, ns, cur, o, ctx)]]
    [] OTHER -> x
RECURSIVE CallsIn(_), CallsInSeq(_)           \* invocations inside a rendered term, in source order (pre-order)
CallsInSeq(xs) == IF xs = <<>> THEN <<>> ELSE CallsIn(Head(xs)) \o CallsInSeq(Tail(xs))
CallsIn(r) == IF r.t = "call" THEN <<r>> \o CallsInSeq(r.a)
              ELSE IF r.t \in {"op", "package", "varpackage", "buffer"} THEN CallsInSeq(r.a) ELSE <<>>

(* ------------------------------------------------------------------ well-formedness of a term against the final namespace (ACPI) *)
\* every invocation designates a method (possibly through an alias) with its declared number of arguments; every other name
\* designates an object that is no method, or a field created in the same method (locals); a name in a package may be a method
RECURSIVE TermOKX(_, _, _, _, _, _)
TermOKX(ns, ext, cur, locals, x, inPkg) ==
  CASE x.t = "call" -> LET p == Target(ns, Lookup(ns, cur, x.f)) IN
                       /\ p # None /\ Has(ns, p) /\ Obj(ns, p).kind = "Method"
                       /\ Obj(ns, p).args[1].n[1] % 8 = Len(x.a)
                       /\ \A i \in 1..Len(x.a) : TermOKX(ns, ext, cur, locals, x.a[i], FALSE)
    [] x.t = "ref"  -> \/ SingleSeg(x.f) /\ x.f.segs[1] \in locals
                       \/ LET p == Target(ns, Lookup(ns, cur, x.f)) IN p # None /\ Has(ns, p) /\ (inPkg \/ Obj(ns, p).kind # "Method")
                       \/ LET p == Lookup(ns \cup ext, cur, x.f) IN p # None /\ \E e \in ext : e.p = p   \* declared External: bound at run time
    [] x.t = "package" -> \A i \in 1..Len(x.a) : TermOKX(ns, ext, cur, locals, x.a[i], TRUE)
    [] x.t \in {"op", "varpackage", "buffer"} -> \A i \in 1..Len(x.a) : TermOKX(ns, ext, cur, locals, x.a[i], FALSE)
    [] OTHER -> TRUE

RECURSIVE TermsOf(_)
TermsOf(x) == {x} \cup (IF HasA(x) THEN UNION {TermsOf(x.a[i]) : i \in 1..Len(x.a)} ELSE {})
RECURSIVE PkgRefs(_)
PkgRefs(x) == (IF x.t = "package" THEN {x.a[i] : i \in {j \in 1..Len(x.a) : x.a[j].t = "ref"}} ELSE {})
              \cup (IF HasA(x) THEN UNION {PkgRefs(x.a[i]) : i \in 1..Len(x.a)} ELSE {})

(* ------------------------------------------------------------------ triggers: constructs left out of the generated language *)
\* XD5 (widens D5): outside a deferred block an operator term among the arguments of an invocation, unless it is the LAST argument
\* of an invocation that is not itself an argument of an invocation (invocations take their arguments from the flat sibling list
\* before operators have collected their operands)
RECURSIVE XD5(_, _)
XD5(x, argOfCall) ==
  CASE x.t = "call" -> \/ \E i \in 1..Len(x.a) : x.a[i].t = "op" /\ (i < Len(x.a) \/ argOfCall)
                       \/ \E i \in 1..Len(x.a) : XD5(x.a[i], x.a[i].t = "call")
    [] x.t = "buffer" -> FALSE                                   \* the length is read in strict context
    [] HasA(x) -> \E i \in 1..Len(x.a) : XD5(x.a[i], FALSE)
    [] OTHER -> FALSE
\* XD6 (D6 made precise): in a deferred block a name or invocation below a node that is not yet attached to the tree.  Statements
\* and the arguments of an invocation are attached when they are read; a TermArg operand is attached only after it has been read.
RECURSIVE XD6(_, _), XD6obj(_), XD6top(_)
XD6(x, att) ==                               \* att: the node that holds x is attached
  CASE x.t \in {"ref"} -> ~att
    [] x.t = "call" -> ~att \/ \E i \in 1..Len(x.a) : XD6obj(x.a[i])
    [] x.t = "op" -> \E i \in 1..Len(x.a) : OpSig[x.s][i] = "T" /\ XD6(x.a[i], FALSE) \* x itself was created detached when it is an operand
    [] x.t = "buffer" -> XD6(x.a[1], FALSE)
    [] x.t \in {"package", "varpackage"} -> \E i \in 1..Len(x.a) : XD6(x.a[i], FALSE)
    [] OTHER -> FALSE
\* a statement / an argument of an invocation: the node itself is attached, its TermArg operands are read detached
XD6obj(x) == CASE x.t = "op" -> \E i \in 1..Len(x.a) : OpSig[x.s][i] = "T" /\ XD6top(x.a[i])
               [] x.t = "buffer" -> XD6top(x.a[1])
               [] x.t \in {"package", "varpackage"} -> \E i \in 1..Len(x.a) : XD6(x.a[i], FALSE)
               [] x.t = "call" -> \E i \in 1..Len(x.a) : XD6obj(x.a[i])
               [] OTHER -> FALSE
\* a TermArg operand of an attached node: a name or invocation is fine, anything bigger is read detached
XD6top(x) == CASE x.t = "ref" -> FALSE
               [] x.t = "call" -> \E i \in 1..Len(x.a) : XD6obj(x.a[i])
               [] OTHER -> XD6(x, FALSE)
\* the deferred term of a flat statement: Buffer lengths inside it (a Buffer is re-read in strict context with the Buffer attached)
RECURSIVE BufLens(_)
BufLens(x) == (IF x.t = "buffer" THEN {x.a[1]} ELSE {})
              \cup (IF HasA(x) /\ x.t # "buffer" THEN UNION {BufLens(x.a[i]) : i \in 1..Len(x.a)} ELSE {})
UsesLoadTable(x) == \E y \in TermsOf(x) : y.t = "op" /\ y.s = "LoadTable"
BadMatch(x, ctx) == \E y \in TermsOf(x) : y.t = "op" /\ y.s = "Match" /\ ctx = "flat" /\ \E i \in {2, 4} : i <= Len(y.a) /\ y.a[i].n[1] > 1
BadVarPkg(x) == \E y \in TermsOf(x) : y.t = "varpackage" /\ OneByte(y.a[1]) < 0
RelRef(x, ctx) == \E y \in TermsOf(x) : (y.t = "call" \/ (y.t = "ref" /\ ctx = "strict")) /\ RelPath(y.f)

\* D7 (same root: a package end that is never popped): in a deferred block a Buffer / Package / VarPackage that is read as an ARGUMENT
\* OF AN INVOCATION leaves its package end behind; the next argument or statement is not read (table rejected)
PkgArgInDeferred(x) == \E y \in TermsOf(x) : y.t = "call" /\ \E i \in 1..Len(y.a) : y.a[i].t \in {"buffer", "package", "varpackage"}
\* names of a term that the parser LOOKS UP when the term is read in context ctx: every name except a SuperName / Target operand that is
\* parsed by its declared type (those are kept as written and never looked up, so no lookup rule of the tree matters for them)
RECURSIVE LookedUp(_, _)
LookedUp(x, ctx) ==
  CASE x.t = "ref" -> {x}
    [] x.t = "call" -> {x} \cup UNION {LookedUp(x.a[i], ctx) : i \in 1..Len(x.a)}
    [] x.t = "buffer" -> LookedUp(x.a[1], "strict")
    [] x.t = "op" -> UNION { IF OpSig[x.s][i] \in {"N", "G"} /\ x.a[i].t = "ref" /\ Typed(OpSig[x.s], i, ctx) THEN {} ELSE LookedUp(x.a[i], ctx) : i \in 1..Len(x.a) }
    [] HasA(x) -> UNION {LookedUp(x.a[i], ctx) : i \in 1..Len(x.a)}
    [] OTHER -> {}
\* ... of these, the names looked up while a DEFERRED block is read (a name the tree cannot resolve there rejects the table; in the
\* first pass it would simply stay a name)
RECURSIVE StrictLooked(_, _)
StrictLooked(x, strict) ==
  CASE x.t = "ref" -> IF strict THEN {x} ELSE {}
    [] x.t = "buffer" -> StrictLooked(x.a[1], TRUE)
    [] x.t = "op" -> UNION { IF OpSig[x.s][i] \in {"N", "G"} /\ x.a[i].t = "ref" /\ strict THEN {} ELSE StrictLooked(x.a[i], strict) : i \in 1..Len(x.a) }
    [] HasA(x) -> UNION {StrictLooked(x.a[i], strict) : i \in 1..Len(x.a)}
    [] OTHER -> {}
EmptyBuf(x) == \E y \in TermsOf(x) : y.t = "buffer" /\ y.n = <<>>
\* triggers of one term x read in scope cur (ctx flat/strict; stmt: x is a whole statement or declaration value)
TermTrigX(st, cur, x, ctx) ==
  LET v == Vis(st) IN
  (IF ctx = "flat" /\ XD5(x, FALSE) THEN {"D5"} ELSE {})
  \cup (IF ctx = "strict" /\ XD6obj(x) THEN {"D6"} ELSE {})
  \cup (IF (ctx = "strict" /\ PkgArgInDeferred(x)) \/ \E b \in BufLens(x) : PkgArgInDeferred(b) THEN {"D7"} ELSE {})
  \cup (IF ctx = "flat" /\ \E b \in BufLens(x) : XD6top(b) THEN {"D6"} ELSE {})
  \cup (IF Dev_EmptyBufferInDeferred /\ ((ctx = "strict" /\ EmptyBuf(x)) \/ \E b \in BufLens(x) : EmptyBuf(b)) THEN {"EmptyBufferInDeferred"} ELSE {})
  \cup (IF Dev_LoadTableSevenOperands /\ UsesLoadTable(x) THEN {"LoadTableSevenOperands"} ELSE {})
  \cup (IF Dev_MatchOperatorBytes /\ BadMatch(x, ctx) THEN {"MatchOperatorBytes"} ELSE {})
  \cup (IF Dev_VarPackageCountByte /\ BadVarPkg(x) THEN {"VarPackageCountByte"} ELSE {})
  \cup (IF Dev_RelPathInTerm /\ (RelRef(x, ctx) \/ \E b \in BufLens(x) : RelRef(b, "strict")) THEN {"RelPathInTerm"} ELSE {})
  \* D1 widened: a ^ in a name that is looked up from inside a term never means one namespace level: Find starts at the node that
  \* holds the name (package element list, operator, invocation ...) and every enclosing NODE counts as a level
  \cup UNION { (IF UsesCaretInObjectScope(st.ns, cur, y.f) \/ y.f.carets > 0 THEN {"D1"} ELSE {})
               \cup (IF PathThroughObject(st.ns, cur, y.f, y.f.segs) THEN {"D2c"} ELSE {}) : y \in LookedUp(x, ctx) }

\* triggers that need the FINAL namespace (checked at the end of the table): what a name designates
LateTrig(st, it) ==
  LET v == Vis(st) IN
  UNION { LET x == it.x[i]
              calls == {y \in TermsOf(x) : y.t = "call"}
              refs  == {y \in TermsOf(x) : y.t = "ref"} IN
          (IF \E y \in calls : Lookup(v, it.rc, y.f) # Target(st.ns, Lookup(st.ns, it.cur, y.f)) THEN {"InvisibleCallee"} ELSE {})
          \cup (IF Dev_PackageMethodRefInvoked /\ \E y \in PkgRefs(x) : LET p == Lookup(v, it.rc, y.f) IN
                      p # None /\ Obj(v, p).kind = "Method" /\ Obj(v, p).args[1].n[1] % 8 # 0 THEN {"PackageMethodRefInvoked"} ELSE {})
          \cup (IF \E y \in refs : LET p == Lookup(v, it.rc, y.f) IN p # None /\ Has(v, p) /\ Obj(v, p).kind = "Method" /\ y \notin PkgRefs(x)
                THEN {"MethodAsRef"} ELSE {})
          \* (kind B of Dev_CreateFieldNotNamed / Dev_AliasKeepsSourceName) a created field or alias name used inside a deferred block
          \cup (IF \E y \in StrictLooked(x, it.ctx = "strict") : Lookup(v, it.rc, y.f) = None THEN {"HiddenNameInDeferred"} ELSE {})
          \* the units of a BankField come into being only when the deferred pass reaches it: a deferred block that is read earlier and
          \* names one of them rejects the table (conservative: any BankField unit of the table that is being loaded)
          \cup (IF \E y \in StrictLooked(x, it.ctx = "strict") : Lookup(v, it.rc, y.f) \in st.late THEN {"BankFieldUnitInDeferred"} ELSE {})
        : i \in 1..Len(it.x) }
(* ------------------------------------------------------------------ the loader *)
\* st of AmlNs plus: xs (see Vis), items (everything of this table that has to be rendered at its end, in token order:
\*   [own (path of the method / scope a body token belongs to, None for declaration values), cur, k, x, ctx]),
\*   bodies / calls of finished tables (rendered), xstk (parallel to stack: [strict, flatif, early, sealed]), locals
S0X == [ns |-> Predef, names |-> {}, displaced |-> {}, stack |-> <<>>, pend |-> <<>>, calls |-> <<>>, tab |-> 1, trig |-> {}, err |-> <<>>,
        xs |-> {}, exts |-> {}, items |-> <<>>, bodies |-> <<>>, xstk |-> <<>>, locals |-> {}, d |-> 0, late |-> {}, reloc |-> {}, lex |-> {}]
TopX(st)    == Last(st.xstk)
Strict(st)  == st.xstk # <<>> /\ TopX(st).strict
Ctx(st)     == IF Strict(st) THEN "strict" ELSE "flat"
\* the method whose body is being read (None outside methods)
RECURSIVE OwnerFrom(_, _)
OwnerFrom(stack, i) == IF i = 0 THEN None ELSE IF stack[i].t = "method" THEN stack[i].p ELSE OwnerFrom(stack, i - 1)
Owner(st) == IF InMethod(st) THEN OwnerFrom(st.stack, Len(st.stack)) ELSE Cur(st)
LocalsOf(st) == {l.n : l \in {y \in st.locals : y.m = Owner(st)}}
Item(st, k, x, ctx) == [own |-> Owner(st), cur |-> Cur(st), rc |-> Cur(st), k |-> k, x |-> x, ctx |-> ctx]
AddItem(st, it) == [st EXCEPT !.items = Append(@, it)]
AddTrig(st, T) == [st EXCEPT !.trig = @ \cup T]

\* a statement has been completed in frame i of the block stack (i = Len: the innermost open block): with Dev_IfBodyFlattened a flat
\* If is closed right after its first statement, which in turn completes a statement of the enclosing block
RECURSIVE CompleteAt(_, _)
CompleteAt(st, i) ==
  IF i = 0 THEN st
  ELSE LET f == st.xstk[i] IN
       IF f.flatif /\ ~f.early /\ Dev_IfBodyFlattened
       THEN CompleteAt([st EXCEPT !.xstk[i].early = TRUE, !.items = Append(@, [own |-> Owner(st), cur |-> Cur(st), rc |-> Cur(st), k |-> "close", x |-> <<>>, ctx |-> "flat"])], i - 1)
       ELSE st
\* D7 made precise: inside a deferred block everything that follows a nested block (up to the end of the outermost deferred block)
\* is lost: the package end of the nested block is never popped.  A frame is sealed when a block nested in it has been closed.
SealedTrig(st) == IF Strict(st) /\ TopX(st).sealed THEN {"D7"} ELSE {}

\* (kind B of Dev_IfBodyFlattened) a Package / VarPackage term read by the first pass inside an If (predicate or body): its element
\* list is a scope that is not left at its end (same miscount as for Else) and swallows what follows
PkgInFlatIf(st, x, opensIf) ==
  IF Dev_IfBodyFlattened /\ ~Strict(st) /\ (st.d > 0 \/ opensIf) /\ \E y \in TermsOf(x) : y.t \in {"package", "varpackage"}
  THEN {"IfBodyFlattened"} ELSE {}
\* executable statement (one operator term or invocation)
Statement(st, t) ==
  LET x == StmtTerm(t)
      s1 == AddTrig(Count(st), TermTrigX(st, Cur(st), x, Ctx(st)) \cup SealedTrig(st) \cup PkgInFlatIf(st, x, FALSE)) IN
  IF t.op = "noop" THEN st                                          \* Noop leaves nothing in the tree
  ELSE IF ~TermWF(x) \/ t.op \notin {"ret", "store", "inc", "dec", "call", "x"} THEN Fail(st, <<"malformed statement", t>>)
  ELSE CompleteAt(AddItem(s1, Item(st, "stmt", <<x>>, Ctx(st))), Len(st.xstk))

OpenBlock(st, t) ==
  LET strict == Strict(st) \/ t.k = "while"
      hdr == IF t.k = "else" THEN <<>> ELSE t.x
      trg == SealedTrig(st) \cup (IF hdr = <<>> THEN {} ELSE TermTrigX(st, Cur(st), hdr[1], IF strict THEN "strict" ELSE "flat"))
                            \cup (IF hdr # <<>> /\ strict /\ XD6top(hdr[1]) THEN {"D6"} ELSE {})
                            \cup (IF hdr # <<>> THEN PkgInFlatIf(st, hdr[1], t.k = "if") ELSE {})
      s1 == AddItem(AddTrig(Count(st), trg), Item(st, t.k, hdr, IF strict THEN "strict" ELSE "flat"))
      s2 == Push(s1, Cur(st), t.k) IN
  IF ~InMethod(st) THEN Fail(st, <<"block statement outside a method", t>>)
  ELSE IF hdr # <<>> /\ ~TermWF(hdr[1]) THEN Fail(st, <<"malformed predicate", t>>)
  ELSE [s2 EXCEPT !.xstk = Append(@, [strict |-> strict, flatif |-> t.k = "if" /\ ~strict, early |-> FALSE, sealed |-> FALSE]),
                  !.d = IF t.k = "if" /\ ~strict /\ Dev_IfBodyFlattened THEN @ + 1 ELSE @]

CloseBlock(st) ==
  LET top == Last(st.stack)
      fx  == TopX(st)
      n   == Len(st.stack)
      cl  == [own |-> Owner(st), cur |-> Cur(st), rc |-> Cur(st), k |-> "close", x |-> <<>>, ctx |-> "flat"]
      s1  == [st EXCEPT !.stack = Front(@), !.xstk = Front(@), !.trig = @ \cup (IF EmptyIfBody(st) THEN {"D9"} ELSE {})]
      seal(s) == IF n > 1 /\ s.xstk[n - 1].strict THEN [s EXCEPT !.xstk[n - 1].sealed = TRUE] ELSE s IN
  IF top.t \notin {"if", "else", "while"} THEN s1
  ELSE IF ~fx.strict /\ Dev_IfBodyFlattened
  THEN \* first pass: the end of this package pops a scope only when both stacks are equally deep; the scope that is popped then is
       \* the innermost Else block that is still open (this one or one that should have ended earlier)
       IF st.d = 0 THEN CompleteAt(AddItem(s1, cl), n - 1) ELSE [s1 EXCEPT !.d = @ - 1]
  ELSE LET s2 == IF fx.early THEN s1 ELSE AddItem(s1, cl) IN
       IF fx.early THEN seal(s2) ELSE CompleteAt(seal(s2), n - 1)

\* declarations that carry a value with names: the value waits for the end of the table
\* cur: the scope the value is written in (well-formedness); rc: the scope its names are resolved from when it is rendered
ValueItem(st, rc, xs, ctx) == [own |-> None, cur |-> Cur(st), rc |-> rc, k |-> "decl", x |-> xs, ctx |-> ctx]
HasNames(xs) == \E i \in 1..Len(xs) : NamesInX(xs[i]) # {}
HasCallOrLen(xs) == \E i \in 1..Len(xs) : \E y \in TermsOf(xs[i]) : y.t = "call" \/ (y.t = "buffer" /\ NamesInX(y.a[1]) # {})
DeclX(st, t, kind, args, ctx) ==
  LET s1 == Declare(st, t, kind, args, "")
      p == DeclPath(st.ns, Cur(st), t.f)
      away == Front(p) # Cur(st)                                       \* not written where it lands
      from == IF Dev_ValueNamesFromFinalPlace THEN Front(p) ELSE Cur(st) IN
  IF s1.err # <<>> THEN s1
  ELSE IF \E i \in 1..Len(args) : ~TermWF(args[i]) THEN Fail(st, <<"malformed value", t>>)
  ELSE AddItem([AddTrig(s1, UNION {TermTrigX(st, Cur(st), args[i], ctx) : i \in 1..Len(args)}
                            \cup (IF away /\ HasCallOrLen(args) /\ Dev_ValueNamesFromFinalPlace THEN {"ValueNamesFromFinalPlace"} ELSE {}))
                 EXCEPT !.lex = @ \cup {[p |-> p, cur |-> from]}],
               ValueItem(st, from, args, ctx))

\* IndexField / BankField: units like Field (enclosing scope, running offsets); the unit remembers its container
UnitsX(t, cur, tag, extra) ==
  LET us == Units(t, cur, 1, 0, t.flags % 16, 0) IN
  [i \in 1..Len(us) |-> [us[i] EXCEPT !.args = <<[t |-> tag, f |-> t.f, n |-> us[i].args[1].n] @@ extra>>]]
FormTrig(st, f, segs) ==
  (IF UsesCaretInObjectScope(st.ns, Cur(st), f) THEN {"D1"} ELSE {})
  \cup (IF PathThroughObject(st.ns, Cur(st), f, segs) THEN {"D2"} ELSE {})
  \cup (IF CaretUnderLateScope(st, f) THEN {"D1b"} ELSE {})
LastSegForm(f) == [abs |-> FALSE, carets |-> 0, segs |-> <<Last(f.segs)>>]
HasPathX(f) == f.abs \/ f.carets > 0 \/ Len(f.segs) > 1
DeclUnits(st, t, us, trg) ==
  LET ps == {us[i].p : i \in 1..Len(us)} IN
  IF InMethod(st) THEN Fail(st, <<"declaration inside a method", t>>)
  ELSE IF Cardinality(ps) # Len(us) \/ \E p \in ps : Has(st.ns, p) THEN Fail(st, <<"field unit declared twice", t>>)
  ELSE [st EXCEPT !.ns = @ \cup {us[i] : i \in 1..Len(us)}, !.names = @ \cup {Last(p) : p \in ps},
                  !.trig = @ \cup trg \cup (IF \E p \in ps : ReusesName(st.names, Last(p)) THEN {"D3"} ELSE {})]
IndexField(st, t) ==
  LET ip == Lookup(st.ns, Cur(st), t.f)                            \* the index and data fields must exist (ACPI)
      dp == Lookup(st.ns, Cur(st), t.g)
      place == DeclPath(st.ns, Cur(st), t.f)                        \* Dev_IndexFieldNamed: where the container node lands
      fshown == IF Dev_IndexFieldNamed /\ HasPathX(t.f) THEN LastSegForm(t.f) ELSE t.f
      us == UnitsX([t EXCEPT !.f = fshown], Cur(st), "iunit", [g |-> t.g])
      \* B: the container must land beside the real index field and after it: not when that field is itself waiting for relocation
      trg == FormTrig(st, t.f, Front(t.f.segs)) \cup (IF Dev_IndexFieldNamed /\ (place # ip \/ ip \in st.reloc) THEN {"IndexFieldNamed"} ELSE {})
      s1 == DeclUnits(st, t, us, trg) IN
  IF ip = None \/ dp = None \/ ~Has(st.ns, ip) \/ ~Has(st.ns, dp) \/ Obj(st.ns, ip).kind # "NamedField" \/ Obj(st.ns, dp).kind # "NamedField"
  THEN Fail(st, <<"IndexField names do not designate field units", t>>)
  ELSE IF s1.err # <<>> \/ ~Dev_IndexFieldNamed THEN s1
  ELSE [s1 EXCEPT !.xs = @ \cup {[p |-> place, kind |-> "IndexField",
                                  args |-> <<AsName(LastSegForm(t.f)), AsName(t.g), [t |-> "byte", n |-> <<t.flags>>]>>]},
                  !.displaced = IF Displaces(st, place) THEN @ \cup {place} ELSE @]
BankField(st, t) ==
  LET rp == Lookup(st.ns, Cur(st), t.f)
      bp == Lookup(st.ns, Cur(st), t.g)
      us == UnitsX(t, Cur(st), "bunit", [g |-> t.g, a |-> t.x])
      s1 == DeclUnits(st, t, us, TermTrigX(st, Cur(st), t.x[1], "strict") \cup (IF XD6top(t.x[1]) THEN {"D6"} ELSE {})) IN
  IF rp = None \/ bp = None \/ ~Has(st.ns, rp) \/ ~Has(st.ns, bp) \/ Obj(st.ns, rp).kind \notin {"OpRegion", "DataRegion"} \/ Obj(st.ns, bp).kind # "NamedField"
  THEN Fail(st, <<"BankField names do not designate a region and a field unit", t>>)
  ELSE IF ~TermWF(t.x[1]) THEN Fail(st, <<"malformed bank value", t>>)
  ELSE IF s1.err # <<>> THEN s1
  ELSE AddItem([s1 EXCEPT !.late = @ \cup {us[i].p : i \in 1..Len(us)}, !.xs = @ \cup {[p |-> Cur(st), kind |-> "BankField",
                                          args |-> <<AsName(t.f), AsName(t.g), t.x[1], [t |-> "byte", n |-> <<t.flags>>]>>]}],
               ValueItem(st, Cur(st), t.x, "strict"))
\* Field over a DataRegion is a Field: AmlNs!DeclField does not look the region up

Alias(st, t) ==
  LET sp == Lookup(st.ns, Cur(st), t.g)                            \* the source must exist when the Alias is loaded (ACPI)
      place == DeclPath(st.ns, Cur(st), t.g)
      tt == [t EXCEPT !.k = "decl"]
      s1 == Declare(st, tt, "Alias", <<[t |-> "aref", f |-> t.g, p |-> Target(st.ns, sp)]>>, "")
      \* B: the Alias node must land beside its source and after it (not when the source is itself waiting for relocation), and
      \* while it waits for its own relocation it must not hide a scope from the Scope directives of the first pass
      trg == FormTrig(st, t.g, Front(t.g.segs))
             \cup (IF Dev_AliasKeepsSourceName /\ (place # sp \/ sp \in st.reloc \/ (Displaces(st, place) /\ IsScope(st.ns, sp)))
                   THEN {"AliasKeepsSourceName"} ELSE {}) IN
  IF sp = None \/ ~Has(st.ns, sp) THEN Fail(st, <<"Alias source does not exist", t>>)
  ELSE IF s1.err # <<>> THEN s1
  ELSE IF ~Dev_AliasKeepsSourceName THEN AddTrig(s1, trg)
  ELSE [AddTrig(s1, trg) EXCEPT !.xs = @ \cup {[p |-> place, kind |-> "Alias", args |-> <<AsName(LastSegForm(t.g)), AsName(t.f)>>]},
                                !.displaced = IF Displaces(st, place) THEN @ \cup {place} ELSE st.displaced]

External(st, t) ==
  LET place == DeclPath(st.ns, Cur(st), t.f)
      trg == NameTriggers(st, [t EXCEPT !.k = "decl"]) \ {"D3"} IN
  IF InMethod(st) THEN Fail(st, <<"declaration inside a method", t>>)
  ELSE IF place = None THEN Fail(st, <<"declaration path does not resolve", t>>)
  ELSE IF place \in st.exts THEN Fail(st, <<"External declared twice", t>>)
  ELSE IF ~Dev_ExternalIsObject THEN [AddTrig(st, trg) EXCEPT !.exts = @ \cup {place}]
  ELSE [AddTrig(st, trg) EXCEPT !.exts = @ \cup {place}, !.xs = @ \cup {[p |-> place, kind |-> "External", args |-> <<AsName(LastSegForm(t.f))>> \o t.args]},
                                !.displaced = IF Displaces(st, place) THEN @ \cup {place} ELSE @]

\* CreateXField(source, index[, bits], name): a statement; at scope level it also declares a buffer field
CreateField(st, t) ==
  LET x == [t |-> "op", s |-> t.kind, a |-> t.x \o <<[t |-> "ref", f |-> t.f]>>]    \* rendered by hand below: the name is never looked up
      stm == [own |-> Owner(st), cur |-> Cur(st), rc |-> Cur(st), k |-> "cfield", x |-> t.x, ctx |-> Ctx(st), kind |-> t.kind, f |-> t.f]
      trg == UNION {TermTrigX(st, Cur(st), t.x[i], Ctx(st)) : i \in 1..Len(t.x)} \cup SealedTrig(st)
             \cup (IF Strict(st) /\ \E i \in 1..Len(t.x) : XD6top(t.x[i]) THEN {"D6"} ELSE {}) IN
  IF t.kind \notin CreateKinds \/ Len(t.x) # (IF t.kind = "CreateField" THEN 3 ELSE 2) \/ \E i \in 1..Len(t.x) : ~TermWF(t.x[i])
  THEN Fail(st, <<"malformed CreateField", t>>)
  ELSE IF InMethod(st)
  THEN IF ~SingleSeg(t.f) \/ t.f.segs[1] \in LocalsOf(st) THEN Fail(st, <<"field created in a method needs a fresh simple name", t>>)
       ELSE CompleteAt([AddItem(AddTrig(Count(st), trg \cup (IF ReusesName(st.names, t.f.segs[1]) THEN {"D3"} ELSE {})), stm)
                        EXCEPT !.locals = @ \cup {[m |-> Owner(st), n |-> t.f.segs[1]]}, !.names = @ \cup {t.f.segs[1]}], Len(st.xstk))
  ELSE LET s1 == Declare(st, [t EXCEPT !.k = "decl"], t.kind, <<>>, "") IN
       IF s1.err # <<>> THEN s1 ELSE AddItem(AddTrig(s1, trg), stm)

\* end of a table: everything recorded is checked and rendered against the namespace as it is NOW
RenItem(st, it) ==
  LET v == Vis(st) IN
  CASE it.k = "cfield" -> [k |-> "stmt", x |-> <<[t |-> "op", s |-> it.kind, a |-> RenSeq(v, st.ns, it.rc, it.x, it.ctx) \o <<AsName(it.f)>>]>>]
    [] it.k \in {"stmt", "if", "while"} -> [k |-> it.k, x |-> RenSeq(v, st.ns, it.rc, it.x, it.ctx)]
    [] OTHER -> [k |-> it.k]
ItemOK(st, it) == \A i \in 1..Len(it.x) : TermOKX(st.ns, ExtPseudo(st), it.cur, {l.n : l \in {y \in st.locals : y.m = it.own}}, it.x[i], FALSE)
EndTableX(st) ==
  LET bad  == {i \in 1..Len(st.items) : ~ItemOK(st, st.items[i])}
      body == SelectSeq(st.items, LAMBDA it : it.own # None /\ it.k # "method")
      owners == {st.items[i].own : i \in {j \in 1..Len(st.items) : st.items[j].own # None}}
      ren  == [i \in 1..Len(st.items) |-> IF st.items[i].k \in {"stmt", "if", "while", "decl", "cfield"}
                                          THEN RenSeq(Vis(st), st.ns, st.items[i].rc, st.items[i].x, st.items[i].ctx) ELSE <<>>]
      cs   == CallsInSeq([i \in 1..Len(ren) |-> [t |-> "op", s |-> "", a |-> ren[i]]])
      late == UNION {LateTrig(st, st.items[i]) : i \in 1..Len(st.items)} IN
  IF st.stack # <<>> THEN Fail(st, <<"table ends inside a block">>)
  ELSE IF bad # {} THEN Fail(st, <<"name or invocation does not match a declaration", st.items[CHOOSE i \in bad : TRUE]>>)
  ELSE [st EXCEPT !.calls = @ \o [i \in 1..Len(cs) |-> [tab |-> st.tab, p |-> cs[i].p, a |-> cs[i].a]],
                  !.bodies = @ \o [i \in 1..Len(body) |-> [own |-> body[i].own, tok |-> RenItem(st, body[i])]],
                  !.items = <<>>, !.tab = @ + 1, !.displaced = {}, !.trig = @ \cup late, !.late = {}, !.reloc = {}]

ApplyX0(st, t) ==
  IF st.err # <<>> THEN st
  ELSE CASE t.k \in {"scope", "open", "method"} ->
              LET s1 == Apply(st, t) IN
              IF s1.err # <<>> THEN s1
              ELSE [s1 EXCEPT !.xstk = Append(@, [strict |-> FALSE, flatif |-> FALSE, early |-> FALSE, sealed |-> FALSE]),
                              !.items = IF t.k = "method" THEN Append(@, [own |-> Cur(s1), cur |-> Cur(s1), rc |-> Cur(s1), k |-> "method", x |-> <<>>, ctx |-> "flat"]) ELSE @,
                              !.d = 0]
         [] t.k = "decl" -> IF t.kind \in {"Name", "OpRegion", "DataRegion"} THEN DeclX(st, t, t.kind, t.args, "flat") ELSE Apply(st, t)
         [] t.k = "field"    -> Apply(st, t)
         [] t.k = "ifield"   -> IndexField(st, t)
         [] t.k = "bfield"   -> BankField(st, t)
         [] t.k = "alias"    -> Alias(st, t)
         [] t.k = "external" -> External(st, t)
         [] t.k = "cfield"   -> CreateField(st, t)
         [] t.k = "stmt"     -> Statement(st, t)
         [] t.k \in {"if", "while", "else"} -> OpenBlock(st, t)
         [] t.k = "close"    -> IF st.stack = <<>> THEN Fail(st, <<"close without open">>) ELSE CloseBlock(st)
         [] t.k = "endtable" -> EndTableX(st)
         [] OTHER -> Fail(st, <<"unknown token", t>>)

\* reloc: objects of the table being loaded that the parser moves to the END of their scope after the first pass: those whose name is
\* written with a prefix or path (relocation pass) and those written directly inside a Scope directive (merge pass).  Matters for the
\* order in which same-named nodes are found (see Dev_AliasKeepsSourceName / Dev_IndexFieldNamed)
ApplyX(st, t) ==
  LET s1 == ApplyX0(st, t)
      inScopeDir == st.stack # <<>> /\ Last(st.stack).t = "scope" IN
  IF st.err = <<>> /\ s1.err = <<>> /\ t.k \in {"open", "method", "decl", "field", "ifield", "bfield", "cfield", "alias"}
     /\ (inScopeDir \/ (t.k \in {"open", "method", "decl"} /\ HasPathX(t.f)))
  THEN [s1 EXCEPT !.reloc = @ \cup {e.p : e \in s1.ns \ st.ns}] ELSE s1

RECURSIVE LoadFromX(_, _, _)
LoadFromX(st, toks, i) == IF i > Len(toks) THEN st ELSE LoadFromX(ApplyX(st, toks[i]), toks, i + 1)
LoadX(toks) == LoadFromX(S0X, toks, 1)

(* ------------------------------------------------------------------ what the property demands of a parse result *)
\* namespace entries as the tree shows them: values rendered from the scope the object lives in
LexCur(st, p) == LET S == {l \in st.lex : l.p = p} IN IF S = {} THEN Front(p) ELSE (CHOOSE l \in S : TRUE).cur
RenEntry(st, e) ==
  LET v == Vis(st)  cur == LexCur(st, e.p) IN
  CASE e.kind \in {"Name", "OpRegion", "DataRegion"} -> [e EXCEPT !.args = RenSeq(v, st.ns, cur, e.args, "flat")]
    [] e.kind = "NamedField" /\ e.args[1].t = "bunit" -> [e EXCEPT !.args = <<[e.args[1] EXCEPT !.a = RenSeq(v, st.ns, cur, @, "strict")]>>]
    [] e.kind = "Alias" -> [e EXCEPT !.args = <<[t |-> "ref", p |-> e.args[1].p]>>]
    [] OTHER -> e
RenXs(st, e) == IF e.kind = "BankField" THEN [e EXCEPT !.args[3] = Ren(Vis(st), st.ns, e.p, e.args[3], "strict")] ELSE e
ExpectNs(st) == {RenEntry(st, e) : e \in {y \in st.ns : ~Hidden(y)}}
ExpectXs(st) == {RenXs(st, e) : e \in st.xs}
\* statement lists: methods as sequences; load-time statements of a scope as a bag (merged Scope blocks are appended in pass order)
BodyOf(st, p) == LET b == SelectSeq(st.bodies, LAMBDA r : r.own = p) IN [i \in 1..Len(b) |-> b[i].tok]
Methods(st) == {e.p : e \in {y \in st.ns : y.kind = "Method"}}
ScopesWithCode(st) == {st.bodies[i].own : i \in 1..Len(st.bodies)} \ Methods(st)
Bag(s) == [x \in {s[i] : i \in 1..Len(s)} |-> Cardinality({i \in 1..Len(s) : s[i] = x})]

\* obs = [res, err, ns, calls, bodies (sequence of [p, b]), xs]: the projection of the real tree.
JudgeX(st, obs) ==
  LET got == {obs.ns[i] : i \in 1..Len(obs.ns)}
      gxs == {obs.xs[i] : i \in 1..Len(obs.xs)}
      want == ExpectNs(st)
      wxs == ExpectXs(st)
      gb(p) == LET S == {i \in 1..Len(obs.bodies) : obs.bodies[i].p = p} IN IF S = {} THEN <<>> ELSE obs.bodies[CHOOSE i \in S : TRUE].b
      badM == {p \in Methods(st) : gb(p) # BodyOf(st, p)}
      badS == {p \in ScopesWithCode(st) \cup ({obs.bodies[i].p : i \in 1..Len(obs.bodies)} \ Methods(st)) : Bag(gb(p)) # Bag(BodyOf(st, p))} IN
  IF obs.res # "ok" THEN <<"well-formed program not parsed", obs.res, obs.err>>
  ELSE IF Cardinality(got) # Len(obs.ns) THEN <<"an object appears twice in the tree">>
  ELSE IF got # want THEN <<"namespace differs", [missing |-> want \ got, unexpected |-> got \ want]>>
  ELSE IF gxs # wxs THEN <<"nodes that are no namespace objects differ", [missing |-> wxs \ gxs, unexpected |-> gxs \ wxs]>>
  ELSE IF Len(obs.calls) # Len(st.calls) THEN <<"number of method invocations differs", [want |-> st.calls, got |-> obs.calls]>>
  ELSE LET D == {i \in 1..Len(st.calls) : obs.calls[i] # st.calls[i]} IN
       IF D # {} THEN LET i == CHOOSE j \in D : \A k \in D : j <= k IN
                      <<"method invocation differs", [want |-> st.calls[i], got |-> obs.calls[i]]>>
       ELSE IF badM # {} THEN LET p == CHOOSE q \in badM : TRUE IN <<"method body differs", [method |-> p, want |-> BodyOf(st, p), got |-> gb(p)]>>
       ELSE IF badS # {} THEN LET p == CHOOSE q \in badS : TRUE IN <<"load-time statements of a scope differ", [scope |-> p, want |-> BodyOf(st, p), got |-> gb(p)]>>
       ELSE <<>>

(* ------------------------------------------------------------------ properties of the loader itself (leg M) *)
\* every alias designates an existing object that is no alias; every unit of an IndexField / BankField lives beside its container's
\* scope; every recorded invocation designates a method with its declared number of arguments
AliasSound(st) == \A e \in st.ns : e.kind = "Alias" => Has(st.ns, e.args[1].p) /\ Obj(st.ns, e.args[1].p).kind # "Alias"
CallsSoundX(st) == \A i \in 1..Len(st.calls) :
                     /\ Has(st.ns, st.calls[i].p) /\ Obj(st.ns, st.calls[i].p).kind = "Method"
                     /\ Obj(st.ns, st.calls[i].p).args[1].n[1] % 8 = Len(st.calls[i].a)
\* block structure of every rendered body is balanced
RECURSIVE Balance(_, _, _)
Balance(b, i, d) == IF d < 0 THEN FALSE ELSE IF i > Len(b) THEN d = 0
                    ELSE Balance(b, i + 1, IF b[i].k \in {"if", "else", "while"} THEN d + 1 ELSE IF b[i].k = "close" THEN d - 1 ELSE d)
BodiesBalanced(st) == \A p \in Methods(st) : Balance(BodyOf(st, p), 1, 0)
XsSound(st) == \A e \in st.xs : e.p = <<>> \/ Len(e.p) = 1 \/ IsScope(st.ns, Front(e.p)) \/ e.kind = "BankField"
====
