CONSTANTS Part = "codec" Scope = "quick" Emit = FALSE Bug = "" EncDevs = {}
INIT Init
NEXT Next
INVARIANT RoundTrip
CHECK_DEADLOCK FALSE
