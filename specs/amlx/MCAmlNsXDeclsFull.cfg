CONSTANTS
  Prelude <- PreDecls
  Fresh <- Fresh4
  PreScopes = {"_SB_"}
  MaxProd = 3  MaxTables = 2  MaxDepth = 2
  Decls = {"Alias", "External", "CreateField", "Name", "Scope", "Device", "Method0"}
  Forms = {"abs", "caret"}
  Values = {"const", "pkgref", "pkgmeth", "bufname", "bufcall", "bufop"}
  Stmts = {"store", "call"}  MaxStmts = 1
  Devs = {"IndexFieldNamed", "AliasKeepsSourceName", "ExternalIsObject", "CreateFieldNotNamed", "PackageMethodRefInvoked", "VarPackageCountByte", "MatchOperatorBytes", "LoadTableSevenOperands", "IfBodyFlattened", "RelPathInTerm", "ValueNamesFromFinalPlace", "EmptyBufferInDeferred"}
  Excluded = {"D1", "D1b", "D2", "D2c", "D3", "D5", "D6", "D7", "D9", "IndexFieldNamed", "AliasKeepsSourceName", "ExternalIsObject", "CreateFieldNotNamed", "PackageMethodRefInvoked", "VarPackageCountByte", "MatchOperatorBytes", "LoadTableSevenOperands", "IfBodyFlattened", "RelPathInTerm", "ValueNamesFromFinalPlace", "EmptyBufferInDeferred", "InvisibleCallee", "MethodAsRef", "HiddenNameInDeferred", "BankFieldUnitInDeferred"}
  Emit = TRUE  Bug = ""
INIT Init
NEXT Next
INVARIANT LoaderSoundX
INVARIANT EmitProg
CHECK_DEADLOCK FALSE
