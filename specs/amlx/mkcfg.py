#!/usr/bin/env python3
"""Writes the MCAmlNsX*.cfg profile files of the extra-amlgrow family (run by hand after changing a scope)."""
import os
D = os.path.dirname(os.path.abspath(__file__))
DEVS = ["IndexFieldNamed", "AliasKeepsSourceName", "ExternalIsObject", "CreateFieldNotNamed", "PackageMethodRefInvoked", "VarPackageCountByte",
        "MatchOperatorBytes", "LoadTableSevenOperands", "IfBodyFlattened", "RelPathInTerm", "ValueNamesFromFinalPlace", "EmptyBufferInDeferred"]
C11 = ["D1", "D1b", "D2", "D2c", "D3", "D5", "D6", "D7", "D9"]
def S(xs): return "{" + ", ".join('"%s"' % x for x in xs) + "}"
def cfg(name, module_invs, prelude, fresh, maxprod, maxtab, maxdepth, decls, forms, values, stmts, maxstmts, emit=True, bug="", devs=None, exc=None, keep=False):
    devs = DEVS if devs is None else devs
    exc = (C11 + DEVS + ["InvisibleCallee", "MethodAsRef", "HiddenNameInDeferred", "BankFieldUnitInDeferred"]) if exc is None else exc
    s = ("\\* Keep_Excluded: the check leaves this Excluded list as it is\n" if keep else "") + ("CONSTANTS\n  Prelude <- %s\n  Fresh <- %s\n  PreScopes = {\"_SB_\"}\n  MaxProd = %d  MaxTables = %d  MaxDepth = %d\n  Decls = %s\n  Forms = %s\n"
         "  Values = %s\n  Stmts = %s  MaxStmts = %d\n  Devs = %s\n  Excluded = %s\n  Emit = %s  Bug = \"%s\"\nINIT Init\nNEXT Next\n%sCHECK_DEADLOCK FALSE\n") % (
        prelude, fresh, maxprod, maxtab, maxdepth, S(decls), S(forms), S(values), S(stmts), maxstmts, S(devs), S(exc),
        "TRUE" if emit else "FALSE", bug, "".join("INVARIANT %s\n" % i for i in module_invs))
    with open(os.path.join(D, name + ".cfg"), "w") as f:
        f.write(s)
GEN = ["LoaderSoundX", "EmitProg"]
# ---- leg M/G profiles (generator MCAmlNsX): Quick = small scope enumerated in seconds, Full = thorough tier
cfg("MCAmlNsXFieldsQuick", GEN, "PreFields", "Fresh4", 1, 1, 1, ["Device", "Scope", "DataRegion", "Field", "IndexField", "BankField"], ["abs", "caret"], ["const", "bufop"], [], 0)
cfg("MCAmlNsXFieldsFull", GEN, "PreFields", "Fresh4", 2, 1, 1, ["Device", "Scope", "DataRegion", "Field", "IndexField", "BankField"], ["abs"], ["const"], [], 0)
cfg("MCAmlNsXDeclsQuick", GEN, "PreDecls", "Fresh3", 1, 1, 1, ["Alias", "External", "CreateField", "Name", "Scope"], ["abs", "caret"], ["const", "pkgref", "pkgmeth", "bufname", "bufcall", "bufop"], [], 0)
cfg("MCAmlNsXDeclsFull", GEN, "PreDecls", "Fresh3", 2, 1, 2, ["Alias", "External", "CreateField", "Name", "Scope"], ["abs", "caret"], ["const", "pkgref", "pkgmeth", "bufname", "bufcall", "bufop"], [], 0)
cfg("MCAmlNsXStmtsQuick", GEN, "PreBody", "Fresh2", 1, 1, 1, [], ["abs"], [], ["sync", "notify", "match", "call", "calloplast", "cfield", "store", "pkg", "varpkg", "buf"], 1)
cfg("MCAmlNsXStmtsFull", GEN, "PreBody", "Fresh2", 2, 1, 1, [], ["abs"], [], ["sync", "notify", "match", "call", "calloplast", "cfield", "store", "pkg", "varpkg", "buf"], 2)
cfg("MCAmlNsXFlowQuick", GEN, "PreBody", "Fresh2", 5, 1, 1, [], [], [], ["if", "else", "while", "notify"], 5)
cfg("MCAmlNsXFlowFull", GEN, "PreBody", "Fresh2", 6, 1, 1, [], [], [], ["if", "else", "while", "notify"], 6)

# ---- design model of the operand collection (MCAmlBodyX): BodyRefines on straight-line bodies; design mutants and the open trigger must be rejected
BODY = ["call", "callop", "calloplast", "store", "notify", "sync", "match"]
cfg("MCAmlBodyXQuick", ["BodyRefines"], "PreBody", "Fresh2", 2, 1, 1, [], [], [], ["call", "calloplast", "store", "notify"], 2, emit=False)
cfg("MCAmlBodyXFull", ["BodyRefines"], "PreBody", "Fresh2", 3, 1, 1, [], [], [], ["call", "calloplast", "store"], 3, emit=False)
for b in ["ConnectBeforeResolve", "NoParentSiblings", "ForwardOrder"]:
    cfg("MCAmlBodyXBug_" + b, ["BodyRefines"], "PreBody", "Fresh2", 2, 1, 1, [], [], [], ["call", "calloplast", "store"], 2, emit=False, bug=b)
# the pinned design on the trigger construct of D5 (operator term in a non-final argument position): Keep_Excluded
c11 = [x for x in C11 if x != "D5"]
cfg("MCAmlBodyXOpen_D5", ["BodyRefines"], "PreBody", "Fresh2", 1, 1, 1, [], [], [], ["callop"], 1, emit=False, exc=c11 + DEVS + ["InvisibleCallee", "MethodAsRef", "HiddenNameInDeferred", "BankFieldUnitInDeferred"], keep=True)
