---- MODULE AmlBodyImpl ----
(* extra-amlgrow, leg M: an abstract model of the parser DESIGN for executable code outside deferred  *)
(* blocks (kernel/device/acpi/aml/parser.go: parseObjectList in parseModeSkipAmbiguousBlocks,           *)
(* resolveMethodCalls, connectNonNamedObjArgs, attachSiblingsAsArgs).                                  *)
(*   1. Flat build: the statements of a block are read into ONE FLAT LIST of sibling nodes: an operator *)
(*      keeps the operands that precede its first TermArg (they are read by their declared type); all   *)
(*      its other operands - and the arguments of every invocation - follow it as its SIBLINGS          *)
(*      (a null target is read as the constant Zero).  Buffers and packages are single nodes.           *)
(*   2. resolveMethodCalls: the list is walked BACKWARDS (children first); an invocation takes as many  *)
(*      following siblings as its method declares arguments and, when it runs out of siblings, goes on  *)
(*      with the siblings that follow its PARENT.                                                       *)
(*   3. connectNonNamedObjArgs: the same walk; an operator whose TermArgs are missing takes them from    *)
(*      its following siblings in the same way.                                                         *)
(* Rebuild(Flatten(body)) must give back the statement list the specification renders (AmlNsX!Ren) for  *)
(* every body that is free of the trigger XD5; `bug` switches realistic wrong designs on.               *)
EXTENDS AmlNsX

\* node = [h (head: a rendered term without its operands), need (siblings still to be taken), k (children)]
Leaf(r) == [h |-> r, need |-> 0, k |-> <<>>, zero |-> r.t = "zero"]
FirstT(sig) == LET S == {i \in 1..Len(sig) : sig[i] = "T"} IN IF S = {} THEN Len(sig) + 1 ELSE CHOOSE i \in S : \A j \in S : i <= j
RECURSIVE FlatSeq2(_)
FlatSeq2(ss) == IF ss = <<>> THEN <<>> ELSE Head(ss) \o FlatSeq2(Tail(ss))
RECURSIVE FlatTerm(_), FlatSeq(_)
FlatSeq(rs) == IF rs = <<>> THEN <<>> ELSE FlatTerm(Head(rs)) \o FlatSeq(Tail(rs))
FlatTerm(r) ==
  CASE r.t = "call" -> <<[h |-> [t |-> "call", p |-> r.p], need |-> Len(r.a), k |-> <<>>, zero |-> FALSE]>> \o FlatSeq(r.a)
    [] r.t = "op"   -> LET sig == OpSig[r.s]
                           ft == FirstT(sig)
                           typed == [i \in 1..(IF ft - 1 < Len(r.a) THEN ft - 1 ELSE Len(r.a)) |-> Leaf(r.a[i])]
                           rest == [j \in 1..(Len(sig) - ft + 1) |-> IF ft + j - 1 <= Len(r.a) THEN FlatTerm(r.a[ft + j - 1]) ELSE <<Leaf([t |-> "zero"])>>] IN
                       <<[h |-> [t |-> "op", s |-> r.s], need |-> IF ft > Len(sig) THEN 0 ELSE Len(sig) - ft + 1, k |-> typed, zero |-> FALSE]>>
                       \o FlatSeq2(rest)
    [] OTHER -> <<Leaf(r)>>

\* one backward walk over a sibling list L; outer = the siblings that follow the owner of L; Takes(n) says whether node n collects in this pass
\* result [L, outer, ok]
RECURSIVE Walk(_, _, _, _, _)
Take(L, i, outer, n, bug) ==                 \* node L[i] takes n nodes: first its own following siblings, then the owner's
  LET own == SubSeq(L, i + 1, Len(L))
      a == IF n <= Len(own) THEN n ELSE Len(own)
      b == IF bug = "NoParentSiblings" THEN 0 ELSE n - a IN
  IF n - a > (IF bug = "NoParentSiblings" THEN 0 ELSE Len(outer)) THEN [L |-> L, outer |-> outer, ok |-> FALSE]
  ELSE [L |-> SubSeq(L, 1, i - 1) \o <<[L[i] EXCEPT !.k = @ \o SubSeq(own, 1, a) \o SubSeq(outer, 1, b), !.need = 0]>> \o SubSeq(own, a + 1, Len(own)),
        outer |-> SubSeq(outer, b + 1, Len(outer)), ok |-> TRUE]
Walk(L, i, outer, pass, bug) ==
  IF i = 0 THEN [L |-> L, outer |-> outer, ok |-> TRUE]
  ELSE LET follow == SubSeq(L, i + 1, Len(L)) \o outer            \* what follows the children of L[i]
           kids == Walk(L[i].k, Len(L[i].k), follow, pass, bug) IN
       IF ~kids.ok THEN kids
       ELSE LET nown == Len(L) - i                                 \* how many of `follow` are L's own
                used == Len(follow) - Len(kids.outer)              \* taken from the front of `follow`
                usedOwn == IF used <= nown THEN used ELSE nown
                L1 == SubSeq(L, 1, i - 1) \o <<[L[i] EXCEPT !.k = kids.L]>> \o SubSeq(L, i + 1 + usedOwn, Len(L))
                o1 == SubSeq(outer, used - usedOwn + 1, Len(outer))
                takes == L1[i].need > 0 /\ ((pass = "resolve" /\ L1[i].h.t = "call") \/ (pass = "connect" /\ L1[i].h.t = "op")) IN
            IF takes THEN LET t == Take(L1, i, o1, L1[i].need, bug) IN IF t.ok THEN Walk(t.L, i - 1, t.outer, pass, bug) ELSE t
            ELSE Walk(L1, i - 1, o1, pass, bug)
\* forward walk (design mutant): first to last, node before its children
RECURSIVE WalkFwd(_, _, _, _)
WalkFwd(L, i, pass, bug) ==
  IF i > Len(L) THEN [L |-> L, outer |-> <<>>, ok |-> TRUE]
  ELSE LET takes == L[i].need > 0 /\ ((pass = "resolve" /\ L[i].h.t = "call") \/ (pass = "connect" /\ L[i].h.t = "op"))
           t == IF takes THEN Take(L, i, <<>>, L[i].need, bug) ELSE [L |-> L, outer |-> <<>>, ok |-> TRUE] IN
       IF ~t.ok THEN t
       ELSE LET kids == WalkFwd(t.L[i].k, 1, pass, bug) IN
            IF ~kids.ok THEN kids ELSE WalkFwd([t.L EXCEPT ![i].k = kids.L], i + 1, pass, bug)
Pass(L, pass, bug) == IF bug = "ForwardOrder" THEN WalkFwd(L, 1, pass, bug) ELSE Walk(L, Len(L), <<>>, pass, bug)

\* projection of the rebuilt forest (as the Go harness renders the real tree): a Zero in a target position is a null target
RECURSIVE Term(_)
Term(n) ==
  CASE n.h.t = "call" -> [t |-> "call", p |-> n.h.p, a |-> [i \in 1..Len(n.k) |-> Term(n.k[i])]]
    [] n.h.t = "op"   -> LET sig == OpSig[n.h.s]
                             keep == SelectSeq([i \in 1..Len(n.k) |-> i], LAMBDA i : ~(n.k[i].zero /\ i <= Len(sig) /\ sig[i] = "G")) IN
                         [t |-> "op", s |-> n.h.s, a |-> [j \in 1..Len(keep) |-> Term(n.k[keep[j]])]]
    [] OTHER -> n.h
\* rs = the rendered statements of a block (no nested blocks).  Returns the statement terms the design builds, or <<[t |-> "rejected"]>>
Rebuild(rs, bug) ==
  LET flat == FlatSeq(rs)
      first == IF bug = "ConnectBeforeResolve" THEN "connect" ELSE "resolve"
      second == IF bug = "ConnectBeforeResolve" THEN "resolve" ELSE "connect"
      p1 == Pass(flat, first, bug) IN
  IF ~p1.ok THEN <<[t |-> "rejected"]>>
  ELSE LET p2 == Pass(p1.L, second, bug) IN
       IF ~p2.ok THEN <<[t |-> "rejected"]>> ELSE [i \in 1..Len(p2.L) |-> Term(p2.L[i])]
====
