CONSTANT Props = {"C01"}
INIT Init
NEXT Next
POSTCONDITION Accepted
CHECK_DEADLOCK FALSE
