CONSTANT Props = {"C01", "C02", "C03", "C09"}
INIT Init
NEXT Next
POSTCONDITION Accepted
CHECK_DEADLOCK FALSE
