CONSTANTS PS = 4  PBits = 2  MaxAddr = 23  MaxRegions = 3  MaxKFrames = 2  WB = 4  MaxEarly = 0  MaxOps = 0
  Family = "hist"  AllowFree = FALSE  Mode = "boot"  Bug = "JumpFromOtherRegion"  Emit = FALSE
  Props = {"C01", "C02", "C03"}
CONSTANT HistMaps <- MCTailMaps
INIT Init
NEXT Next
INVARIANT NoMismatch
INVARIANT EmitCase
INVARIANT EmitScript
VIEW View
CHECK_DEADLOCK FALSE
