CONSTANTS PS = 4  PBits = 2  MaxAddr = 39  MaxRegions = 3  MaxKFrames = 1  WB = 4  MaxEarly = 1  MaxOps = 4
  Family = "hist"  AllowFree = TRUE  Mode = "main"  Bug = "AllocHighestBit"  Emit = FALSE
  Props = {"C01", "C02", "C03"}
CONSTANT HistMaps <- MCHistMaps
INIT Init
NEXT Next
INVARIANT NoMismatch
INVARIANT EmitCase
INVARIANT EmitScript
VIEW View
CHECK_DEADLOCK FALSE
