---- MODULE MCPmm ----
EXTENDS PmmModel
\* word-boundary family for WB = 4: pools of 3, 4, 5, 8, 9 frames, an unaligned one, and two pools around a reserved gap
R(a, l, t) == [a |-> a, l |-> l, t |-> t]
MCHistMaps == { <<R(0, 12, 1)>>, <<R(0, 16, 1)>>, <<R(0, 20, 1)>>, <<R(4, 32, 1)>>, <<R(0, 36, 1)>>,
                <<R(2, 19, 1)>>, <<R(0, 12, 1), R(12, 4, 2), R(17, 22, 1)>> }
\* maps whose first region ends in a partial page that holds a page-aligned address (kernel in the trailing partial page)
MCTailMaps == { <<R(0, 5, 1), R(9, 4, 1)>>, <<R(0, 5, 1), R(9, 8, 1)>>, <<R(1, 4, 1), R(12, 8, 1)>> }
====
