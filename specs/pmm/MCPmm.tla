---- MODULE MCPmm ----
EXTENDS PmmModel
\* word-boundary family for WB = 4: pools of 3, 4, 5, 8, 9 frames, an unaligned one, and two pools around a reserved gap
R(a, l, t) == [a |-> a, l |-> l, t |-> t]
MCHistMaps == { <<R(0, 12, 1)>>, <<R(0, 16, 1)>>, <<R(0, 20, 1)>>, <<R(4, 32, 1)>>, <<R(0, 36, 1)>>,
                <<R(2, 19, 1)>>, <<R(0, 12, 1), R(12, 4, 2), R(17, 22, 1)>> }
====
