---- MODULE PmmModel ----
(***************************************************************************)
(* Design model of the physical memory manager: a transcription of          *)
(*   BootMemAllocator.AllocFrame           (bootmem_allocator.go)           *)
(*   BitmapAllocator.setupPoolBitmaps / reserveKernelFrames /               *)
(*   reserveEarlyAllocatorFrames / AllocFrame / FreeFrame (bitmap_allocator.go) *)
(* over small integers.  The memory map and the kernel placement are chosen *)
(* in Init, so one TLC run quantifies over every sorted, non-overlapping    *)
(* map of the scope (unaligned bounds, sub-page regions, reserved types).   *)
(* Every action produces the event the real code would log and the event is *)
(* judged by the very same monitor operators (PmmProps) that judge traces   *)
(* of the real package: NoMismatch is C01 /\ C02 /\ C03 for the design.     *)
(*                                                                          *)
(* Bitmap words have WB bits (64 in the code, 4 here so that pools of 3, 4, *)
(* 5, 8, 9 frames hit every word-boundary case).  Design-mutant switches    *)
(* re-create realistic wrong designs; TLC must reject each of them.         *)
(***************************************************************************)
EXTENDS Integers, Sequences, FiniteSets, TLC, Json, CSV, IOUtils
CONSTANTS PS,          \* page size in address units (a power of two: 2^PBits)
          PBits,
          MaxAddr,     \* addresses 0..MaxAddr
          MaxRegions, MaxKFrames,
          WB,          \* bits per bitmap word
          MaxEarly,    \* frames the hand-over may consume for the allocator's own tables (0..MaxEarly)
          MaxOps,      \* alloc/free operations explored after hand-over
          Family,      \* "all": every map of the scope;  "hist": the fixed word-boundary family MCHistMaps
          HistMaps,
          Bug,         \* "" or the name of a design mutant
          AllowFree, Mode, Props, Emit

LB == 3
NL == 3                \* 9-bit words are enough for the small scope
P == INSTANCE PmmProps WITH LimbBits <- LB, NLimbs <- NL, PB <- PBits
Wd == INSTANCE Word WITH LimbBits <- LB, NLimbs <- NL
Wn(n) == Wd!FromNat(n)

Frames == 0..(MaxAddr \div PS) + 2
RoundUp(a) == ((a + PS - 1) \div PS) * PS
RoundDown(a) == (a \div PS) * PS
RegionStartFrame(r) == RoundUp(r.a) \div PS
RegionEndFrame(r) == (RoundDown(r.a + r.l) \div PS) - 1          \* may be < start

VARIABLES regs, ks, ke,        \* memory map; kernel start / end *addresses*
          pc,                  \* "boot" | "main" | "failed"
          last, cnt,           \* boot allocator cursor and count
          pools, total, reserved,
          held, nops, script,
          s, mismatch          \* monitor state and verdict
vars == <<regs, ks, ke, pc, last, cnt, pools, total, reserved, held, nops, script, s, mismatch>>

\* (parameterised so that TLC does not pre-compute the whole family when Family = "hist")
RegionSeqs(mr) ==
  UNION { { q \in [1..n -> [a: 0..MaxAddr, l: 1..MaxAddr + 1, t: {1, 2}]] :
              /\ \A i \in 1..n : q[i].a + q[i].l <= MaxAddr + 1
              /\ \A i \in 1..(n - 1) : q[i].a + q[i].l <= q[i + 1].a } : n \in 1..mr }
Maps == IF Family = "all" THEN RegionSeqs(MaxRegions) ELSE HistMaps

KSF == ks \div PS                         \* kernelStartFrame
KEF == (RoundUp(ke) \div PS) - 1          \* kernelEndFrame (inclusive)

EvRegs == [i \in 1..Len(regs) |-> [a |-> Wn(regs[i].a), l |-> Wn(regs[i].l), t |-> <<0, regs[i].t>>]]

Init ==
  /\ regs \in Maps
  /\ \E i \in 1..Len(regs) :
       /\ regs[i].t = 1
       \* the image starts at ANY page-aligned address inside the region: on one of its whole frames or in its trailing
       \* partial page (then the region may hold no whole frame at all)
       /\ \E f \in {x \in 0..(MaxAddr \div PS) : regs[i].a <= x * PS /\ x * PS < regs[i].a + regs[i].l} :
            /\ ks = f * PS
            \* the image ends anywhere up to the end of its region: on a frame boundary, just past one, or at the region's
            \* (possibly unaligned) end inside its trailing partial page
            /\ ke \in {a \in (ks + 1)..(regs[i].a + regs[i].l) : a - ks <= MaxKFrames * PS + (PS - 1) /\ (a % PS \in {0, 1} \/ a = regs[i].a + regs[i].l)}
  /\ pc = "boot" /\ last = 0 /\ cnt = 0
  /\ pools = <<>> /\ total = 0 /\ reserved = 0 /\ held = {} /\ nops = 0 /\ script = <<>>
  /\ s = [P!S0 EXCEPT !.rb = P!Bounds(EvRegs), !.kf = P!KFirst(Wn(ks)), !.ke = P!KEndP1(Wn(ke))]
  /\ mismatch = <<>>

--------------------------------------------------------------------------
(* BootMemAllocator.AllocFrame: <<found, newLast>> after visiting regions i..n with cursor l *)
RECURSIVE Visit(_, _, _)
Visit(i, l, c) ==
  IF i > Len(regs) THEN <<FALSE, l>>
  ELSE LET r == regs[i] IN
    IF r.t # 1 \/ r.l < PS THEN Visit(i + 1, l, c)
    ELSE LET st == RegionStartFrame(r)  e == RegionEndFrame(r) IN
      IF l >= e THEN Visit(i + 1, l, c)
      \* second clause: "we are IN this region and the next frame is the kernel's first" - before the repair (fix: boot
      \* allocator kernel jump) the cursor was not required to be inside the region (Bug JumpFromOtherRegion): a kernel image
      \* in the trailing partial page of an earlier region made the cursor jump to a frame below this region's first
      ELSE LET l2 == IF (l <= st /\ KSF = st) \/ ((Bug = "JumpFromOtherRegion" \/ l >= st) /\ l <= e /\ l + 1 = KSF)
                     THEN (IF Bug = "BootJumpToKernelEnd" THEN KEF ELSE KEF + 1)
                     ELSE IF l < st \/ c = 0 THEN st
                     ELSE l + 1
           IN IF l2 > e THEN Visit(i + 1, l2, c) ELSE <<TRUE, l2>>

\* n successive boot allocations from cursor (l, c): <<ok, frames, l, c>>
RECURSIVE BootAllocN(_, _, _, _)
BootAllocN(n, l, c, acc) ==
  IF n = 0 THEN <<TRUE, acc, l, c>>
  ELSE LET v == Visit(1, l, c) IN
       IF v[1] THEN BootAllocN(n - 1, v[2], c + 1, Append(acc, v[2])) ELSE <<FALSE, acc, v[2], c>>

--------------------------------------------------------------------------
(* bitmap allocator *)
\* regions without a whole frame get no pool (before the repair they got a pool whose end wrapped below its start)
AvailIdx == {i \in 1..Len(regs) : regs[i].t = 1 /\ (Bug = "CountIsEndMinusStart" \/ RegionEndFrame(regs[i]) + 1 > RegionStartFrame(regs[i]))}
RECURSIVE SeqOfSet(_)
SeqOfSet(S) == IF S = {} THEN <<>> ELSE LET m == CHOOSE x \in S : \A y \in S : x <= y IN <<m>> \o SeqOfSet(S \ {m})
AvailSeq == SeqOfSet(AvailIdx)

PageCount(st, e) == IF Bug = "CountIsEndMinusStart" THEN e - st            \* the sizing of the pinned tree
                    ELSE IF e + 1 > st THEN e - st + 1 ELSE 0
NWords(n) == (n + WB - 1) \div WB
MkPool(r) == LET st == RegionStartFrame(r)  e == RegionEndFrame(r)  n == PageCount(st, e) IN
             [st |-> st, e |-> e, fc |-> IF Bug = "CountIsEndMinusStart" THEN e - st + 1 ELSE n,
              nbits |-> NWords(IF n < 0 THEN 0 ELSE n) * WB, bits |-> {}]       \* bits = set of set bit indices
SetupPools == [i \in 1..Len(AvailSeq) |-> MkPool(regs[AvailSeq[i]])]
SetupTotal == LET RECURSIVE Sum(_)
                  Sum(i) == IF i > Len(AvailSeq) THEN 0
                            ELSE LET r == regs[AvailSeq[i]] IN PageCount(RegionStartFrame(r), RegionEndFrame(r)) + Sum(i + 1)
              IN Sum(1)

PoolFor(ps, f) == LET S == {i \in 1..Len(ps) : f >= ps[i].st /\ (IF Bug = "PoolForFrameStrict" THEN f < ps[i].e ELSE f <= ps[i].e)}
                  IN IF S = {} THEN 0 ELSE CHOOSE i \in S : \A j \in S : i <= j

\* markFrame(poolIndex, frame, reserved) on state st = [ps, res, panic]
Mark(st, pi, f) ==
  IF st.panic \/ pi = 0 \/ f > st.ps[pi].e THEN st
  ELSE LET rel == f - st.ps[pi].st IN
       IF rel >= st.ps[pi].nbits \/ rel < 0 THEN [st EXCEPT !.panic = TRUE]      \* index out of range
       ELSE [st EXCEPT !.ps[pi].bits = @ \cup {rel}, !.ps[pi].fc = @ - 1, !.res = @ + 1]

RECURSIVE MarkRange(_, _, _, _)
MarkRange(st, pi, f, to) == IF f > to THEN st ELSE MarkRange(Mark(st, pi, f), pi, f + 1, to)
RECURSIVE MarkSeq(_, _, _)
MarkSeq(st, fs, i) == IF i > Len(fs) THEN st ELSE MarkSeq(Mark(st, PoolFor(st.ps, fs[i]), fs[i]), fs, i + 1)

\* pmm.Init with nEarly frames needed for the allocator's own tables
HandOver(nEarly) ==
  /\ pc = "boot" /\ cnt = 0
  /\ LET b == BootAllocN(nEarly, last, cnt, <<>>)
         ps0 == SetupPools
         negsize == \E i \in 1..Len(ps0) : PageCount(ps0[i].st, ps0[i].e) < 0
     IN IF ~b[1]
        THEN \* the boot allocator ran dry while mapping the tables: Init reports out-of-memory
             /\ pc' = "failed" /\ last' = b[3] /\ cnt' = b[4]
             /\ UNCHANGED <<pools, total, reserved, held>>
             /\ LET e == [k |-> "init", regs |-> EvRegs, ks |-> Wn(ks), ke |-> Wn(ke), res |-> "oom",
                          early |-> [i \in 1..Len(b[2]) |-> Wn(b[2][i])], total |-> 0, reserved |-> 0]
                    m == P!MonInit(s, e)
                IN s' = m.s /\ mismatch' = P!FirstFail(0, m.cs)
        ELSE LET st0 == [ps |-> ps0, res |-> 0, panic |-> negsize]
                 st1 == MarkRange(st0, PoolFor(ps0, KSF), KSF, KEF)
                 \* reserveEarlyAllocatorFrames: reset the cursor and replay cnt allocations
                 rp  == BootAllocN(b[4], 0, 0, <<>>)
                 st2 == IF Bug = "SkipEarlyReplay" THEN st1 ELSE MarkSeq(st1, rp[2], 1)
                 e == [k |-> "init", regs |-> EvRegs, ks |-> Wn(ks), ke |-> Wn(ke),
                       res |-> IF st2.panic THEN "panic" ELSE "ok",
                       early |-> [i \in 1..Len(b[2]) |-> Wn(b[2][i])],
                       total |-> SetupTotal, reserved |-> st2.res]
                 m == P!MonInit(s, e)
             IN /\ pc' = IF st2.panic THEN "failed" ELSE "main"
                /\ last' = rp[3] /\ cnt' = rp[4]
                /\ pools' = st2.ps /\ total' = SetupTotal /\ reserved' = st2.res /\ held' = {}
                /\ s' = m.s /\ mismatch' = P!FirstFail(0, m.cs)
  /\ nops' = nops /\ script' = script
  /\ UNCHANGED <<regs, ks, ke>>

\* AllocFrame: lowest clear bit of the first pool with freeCount # 0 (padding bits included, as coded)
AllocResult ==
  LET C == {i \in 1..Len(pools) : pools[i].fc # 0 /\ \E b \in 0..(pools[i].nbits - 1) : b \notin pools[i].bits} IN
  IF C = {} THEN <<0, 0>>
  ELSE LET pi == CHOOSE i \in C : \A j \in C : i <= j
           Z == {b \in 0..(pools[pi].nbits - 1) : b \notin pools[pi].bits}
           ZR == {x \in Z : x <= pools[pi].e - pools[pi].st}     \* in-range clear bits
           b == IF Bug = "AllocHighestBit" /\ ZR # {} THEN CHOOSE x \in ZR : \A y \in ZR : x >= y ELSE CHOOSE x \in Z : \A y \in Z : x <= y
       IN <<pi, b>>

Alloc ==
  /\ pc = "main" /\ nops < MaxOps
  /\ LET r == AllocResult IN
     IF r[1] = 0
     THEN /\ UNCHANGED <<pools, reserved, held>>
          /\ LET e == [k |-> "alloc", res |-> "oom", f |-> Wn(0), total |-> total, reserved |-> reserved, lock |-> 0]
                 m == P!MonAlloc(s, e)
             IN s' = m.s /\ mismatch' = P!FirstFail(nops + 1, m.cs)
     ELSE LET f == pools[r[1]].st + r[2] IN
          /\ pools' = [pools EXCEPT ![r[1]].bits = @ \cup {r[2]}, ![r[1]].fc = @ - 1]
          /\ reserved' = reserved + 1 /\ held' = held \cup {f}
          /\ LET e == [k |-> "alloc", res |-> "ok", f |-> Wn(f), total |-> total, reserved |-> reserved + 1, lock |-> 0]
                 m == P!MonAlloc(s, e)
             IN s' = m.s /\ mismatch' = P!FirstFail(nops + 1, m.cs)
  /\ nops' = nops + 1 /\ script' = Append(script, <<0>>)
  /\ UNCHANGED <<regs, ks, ke, pc, last, cnt, total>>

\* FreeFrame(f).  Kernel-image and early-boot frames are outside the domain (DESIGN 4.1 note i).
FreeDomain == {f \in Frames : ~(KSF <= f /\ f <= KEF) /\ Wn(f) \notin s.early}
Free(f) ==
  /\ pc = "main" /\ nops < MaxOps
  /\ LET pi == PoolFor(pools, f) IN
     IF pi = 0
     THEN /\ UNCHANGED <<pools, reserved, held>>
          /\ LET e == [k |-> "free", f |-> Wn(f), res |-> "frame not managed", total |-> total, reserved |-> reserved, lock |-> 0]
                 m == P!MonFree(s, e)
             IN s' = m.s /\ mismatch' = P!FirstFail(nops + 1, m.cs)
     ELSE LET rel == f - pools[pi].st IN
          IF rel >= pools[pi].nbits
          THEN /\ UNCHANGED <<pools, reserved, held>>
               /\ LET e == [k |-> "free", f |-> Wn(f), res |-> "panic", total |-> total, reserved |-> reserved, lock |-> 0]
                      m == P!MonFree(s, e)
                  IN s' = m.s /\ mismatch' = P!FirstFail(nops + 1, m.cs)
          ELSE IF rel \notin pools[pi].bits /\ Bug # "FreeNoBitTest"
          THEN /\ UNCHANGED <<pools, reserved, held>>
               /\ LET e == [k |-> "free", f |-> Wn(f), res |-> "already free", total |-> total, reserved |-> reserved, lock |-> 0]
                      m == P!MonFree(s, e)
                  IN s' = m.s /\ mismatch' = P!FirstFail(nops + 1, m.cs)
          ELSE /\ pools' = [pools EXCEPT ![pi].bits = @ \ {rel}, ![pi].fc = @ + 1]
               /\ reserved' = reserved - 1 /\ held' = held \ {f}
               /\ LET e == [k |-> "free", f |-> Wn(f), res |-> "ok", total |-> total, reserved |-> reserved - 1, lock |-> 0]
                      m == P!MonFree(s, e)
                  IN s' = m.s /\ mismatch' = P!FirstFail(nops + 1, m.cs)
  /\ nops' = nops + 1 /\ script' = Append(script, <<5, f>>)
  /\ UNCHANGED <<regs, ks, ke, pc, last, cnt, total>>

\* the boot allocator on its own (C02): one allocation
BootAlloc ==
  /\ pc = "boot" /\ cnt < 2 * (MaxAddr \div PS + 1)
  /\ LET v == Visit(1, last, cnt)
         e == [k |-> "balloc", res |-> IF v[1] THEN "ok" ELSE "oom", f |-> Wn(IF v[1] THEN v[2] ELSE 0)]
         m == P!MonBAlloc(s, e)
     IN /\ last' = v[2] /\ cnt' = IF v[1] THEN cnt + 1 ELSE cnt
        /\ s' = m.s /\ mismatch' = P!FirstFail(cnt + 1, m.cs)
        /\ pc' = IF v[1] THEN "boot" ELSE "bootdone"
  /\ UNCHANGED <<regs, ks, ke, pools, total, reserved, held, nops, script>>

\* replay from a reset state must return the same frames (checked in one step)
BootReplay ==
  /\ pc = "bootdone"
  /\ LET rp == IF Bug = "ReplayKeepsCursor" THEN BootAllocN(cnt, last, 0, <<>>) ELSE BootAllocN(cnt, 0, 0, <<>>) IN
     /\ mismatch' = IF rp[1] /\ [i \in 1..Len(rp[2]) |-> Wn(rp[2][i])] = s.bh THEN <<>> ELSE <<cnt, "C02", "replay differs">>
     /\ pc' = "replayed"
  /\ UNCHANGED <<regs, ks, ke, last, cnt, pools, total, reserved, held, nops, script, s>>

Next == /\ mismatch = <<>>
        /\ \/ (Mode = "main" /\ \E n \in 0..MaxEarly : HandOver(n))
           \/ (Mode = "main" /\ Alloc)
           \/ (Mode = "main" /\ AllowFree /\ \E f \in FreeDomain : Free(f))
           \/ (Mode = "boot" /\ BootAlloc)
           \/ (Mode = "boot" /\ BootReplay)
NoNext == FALSE /\ UNCHANGED vars

NoMismatch == mismatch = <<>>

\* leg G: every initial state (map + kernel placement) is written out as a case for the Go harness
EmitCase == (Emit /\ pc = "boot" /\ cnt = 0) =>
              CSVWrite("%1$s", <<ToJson([regs |-> regs, ks |-> ks, ke |-> ke])>>, IOEnv.CASES)
\* history-level: every explored alloc/free script on the word-boundary family
EmitScript == (Emit /\ pc = "main" /\ nops = MaxOps) =>
              CSVWrite("%1$s", <<ToJson([regs |-> regs, ks |-> ks, ke |-> ke, script |-> script])>>, IOEnv.CASES)

View == <<regs, ks, ke, pc, last, cnt, pools, total, reserved, held, nops, s, mismatch>>
====
