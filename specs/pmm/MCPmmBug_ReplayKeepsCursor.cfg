CONSTANTS PS = 4  PBits = 2  MaxAddr = 39  MaxRegions = 3  MaxKFrames = 2  WB = 4  MaxEarly = 0  MaxOps = 0
  Family = "hist"  AllowFree = FALSE  Mode = "boot"  Bug = "ReplayKeepsCursor"  Emit = FALSE
  Props = {"C01", "C02", "C03"}
CONSTANT HistMaps <- MCHistMaps
INIT Init
NEXT Next
INVARIANT NoMismatch
INVARIANT EmitCase
INVARIANT EmitScript
VIEW View
CHECK_DEADLOCK FALSE
