---- MODULE PmmProps ----
(***************************************************************************)
(* What the physical memory manager must do (properties C01, C02, C03 and  *)
(* the sequential part of C09), written once as a *monitor*: operators that *)
(* take the monitor state `s` and one observed event `e` and return the     *)
(* next monitor state plus the first property the event violates.           *)
(*                                                                          *)
(* The same operators judge (a) the design model PmmModel (a transcription  *)
(* of the boot allocator and the bitmap allocator, exhaustively explored by *)
(* TLC in a small scope) and (b) traces recorded from the real Go package   *)
(* (PmmTrace).  All machine values are words (limb tuples, module Word) so  *)
(* that the very same text works for 6-bit model words and 64-bit traces.   *)
(*                                                                          *)
(* Event shapes (k = kind):                                                 *)
(*  binit  regs ks ke          boot allocator initialised for a map         *)
(*  balloc res f               BootMemAllocator.AllocFrame returned         *)
(*  breset                     cursor and count zeroed (hand-over replay)   *)
(*  handover res boot marked   real hand-over after |boot| allocations      *)
(*  init   regs ks ke res early total reserved     pmm.Init returned        *)
(*  alloc  res f total reserved lock               AllocFrame returned      *)
(*  free   f res total reserved lock               FreeFrame(f) returned    *)
(*  reset                      end of one trace                             *)
(* regs: sequence of [a, l, t] (address, length: words; t: 32-bit type as   *)
(* two 16-bit halves <<hi, lo>>); ks/ke kernel start/end addresses (words); *)
(* f and early[i]: frame numbers (words); res: "ok" | "oom" | "panic" | the *)
(* error text of a rejected free; total/reserved: the allocator's counters. *)
(***************************************************************************)
EXTENDS Integers, Sequences, FiniteSets
CONSTANTS LimbBits, NLimbs, PB, Props
W == INSTANCE Word

IsAvail(r)  == r.t = <<0, 1>>
First(r)    == W!ShiftR(W!RoundUpC(r.a, PB).v, PB)               \* first whole frame of a region
EndP1(r)    == W!ShiftR(W!RoundDown(W!Add(r.a, r.l), PB), PB)    \* one past its last whole frame
\* frame bounds <<first, one-past-last>> of the available regions, computed once per map
Bounds(rs) == [i \in 1..Len(rs) |-> IF IsAvail(rs[i]) THEN <<First(rs[i]), EndP1(rs[i])>> ELSE <<W!Zero, W!Zero>>]
Usable(bs, f)  == \E i \in 1..Len(bs) : W!Le(bs[i][1], f) /\ W!Lt(f, bs[i][2])
Count(r) == IF W!Lt(First(r), EndP1(r)) THEN W!ToNat(W!Sub(EndP1(r), First(r))) ELSE 0
RECURSIVE SumCounts(_, _)
SumCounts(rs, i) == IF i > Len(rs) THEN 0
                    ELSE (IF IsAvail(rs[i]) THEN Count(rs[i]) ELSE 0) + SumCounts(rs, i + 1)
\* kernel frames that are usable frames (the image may end in the trailing partial page of its region, which is no frame of any pool)
WMax(a, b) == IF W!Lt(a, b) THEN b ELSE a
WMin(a, b) == IF W!Lt(a, b) THEN a ELSE b
Overlap(lo, hi, kf, ke) == LET st == WMax(lo, kf)  en == WMin(hi, ke) IN IF W!Lt(st, en) THEN W!ToNat(W!Sub(en, st)) ELSE 0
RECURSIVE KernelUsableR(_, _, _, _)
KernelUsableR(bs, kf, ke, i) == IF i > Len(bs) THEN 0 ELSE Overlap(bs[i][1], bs[i][2], kf, ke) + KernelUsableR(bs, kf, ke, i + 1)
KernelUsable(bs, kf, ke) == KernelUsableR(bs, kf, ke, 1)
KFirst(ks) == W!ShiftR(W!RoundDown(ks, PB), PB)
KEndP1(ke) == W!ShiftR(W!RoundUpC(ke, PB).v, PB)
InKernel(s, f) == W!Le(s.kf, f) /\ W!Lt(f, s.ke)

S0 == [rb |-> <<>>, kf |-> W!Zero, ke |-> W!Zero, early |-> {}, held |-> {}, n |-> 0,
       bh |-> <<>>, bi |-> 0, replay |-> FALSE]

\* cs: sequence of <<property, failed?, explanation>>; the first enabled failing check wins
FirstFail(line, cs) ==
  LET S == {i \in 1..Len(cs) : cs[i][1] \in Props /\ cs[i][2]} IN
  IF S = {} THEN <<>> ELSE LET i == CHOOSE j \in S : \A k \in S : j <= k IN <<line, cs[i][1], cs[i][3]>>

Range(q) == {q[i] : i \in 1..Len(q)}

--------------------------------------------------------------------------
(* C02: the boot allocator alone *)
MonBInit(s, e) ==
  [s |-> [S0 EXCEPT !.rb = Bounds(e.regs), !.kf = KFirst(e.ks), !.ke = KEndP1(e.ke)], cs |-> <<>>]

MonBAlloc(s, e) ==
  LET lastp1 == IF s.replay THEN s.bi ELSE Len(s.bh) IN
  IF e.res = "ok"
  THEN [s |-> IF s.replay THEN [s EXCEPT !.bi = s.bi + 1] ELSE [s EXCEPT !.bh = Append(s.bh, e.f)],
        cs |-> <<
          <<"C02", ~Usable(s.rb, e.f), <<"boot allocator returned a frame outside available RAM", e.f>> >>,
          <<"C02", InKernel(s, e.f), <<"boot allocator returned a kernel image frame", e.f>> >>,
          <<"C02", ~s.replay /\ \E i \in 1..Len(s.bh) : ~W!Lt(s.bh[i], e.f),
                   <<"boot allocator frame not above all earlier ones", e.f>> >>,
          <<"C02", s.replay /\ (s.bi + 1 > Len(s.bh) \/ (s.bi + 1 <= Len(s.bh) /\ s.bh[s.bi + 1] # e.f)),
                   <<"replay from a reset state returned a different frame", s.bi + 1, e.f>> >> >>]
  ELSE [s |-> s,
        cs |-> <<
          <<"C02", e.res = "panic", "boot allocator panicked">>,
          <<"C02", s.replay /\ s.bi < Len(s.bh), <<"replay reported out-of-memory early", s.bi>> >> >>]

MonBReset(s, e) == [s |-> [s EXCEPT !.replay = TRUE, !.bi = 0], cs |-> <<>>]

\* the REAL hand-over (setupPoolBitmaps, reserveKernelFrames, reserveEarlyAllocatorFrames) after e.boot frames were
\* consumed: "the frames consumed during boot can be recovered exactly at hand-over" - e.marked are the frames
\* the bitmaps hold as reserved afterwards: exactly the kernel image and the consumed frames
MonHandover(s, e) ==
  LET boot == Range(e.boot)  marked == Range(e.marked) IN
  [s |-> s,
   cs |-> <<
     <<"C02", e.res = "panic", "hand-over panicked">>,
     <<"C02", e.res = "ok" /\ \E f \in boot : f \notin marked,
              <<"a frame consumed during boot is not reserved after hand-over", {f \in boot : f \notin marked}>> >>,
     <<"C02", e.res = "ok" /\ \E f \in marked : f \notin boot /\ ~InKernel(s, f),
              <<"hand-over reserved a frame that was never consumed", {f \in marked : f \notin boot /\ ~InKernel(s, f)}>> >> >>]

--------------------------------------------------------------------------
(* C01 / C03: pmm.Init, then AllocFrame / FreeFrame of the main allocator *)
MonInit(s, e) ==
  LET kf == KFirst(e.ks)
      ke == KEndP1(e.ke)
      es == Range(e.early)
      s1 == [S0 EXCEPT !.rb = Bounds(e.regs), !.kf = kf, !.ke = ke, !.early = es]
      a  == SumCounts(e.regs, 1) - KernelUsable(s1.rb, kf, ke) - Cardinality(es)
  IN [s |-> [s1 EXCEPT !.n = a],
      cs |-> <<
        <<"C03", e.res = "panic", "pmm.Init panicked">>,
        <<"C03", e.res \notin {"ok", "oom", "panic"}, <<"pmm.Init failed with something else than out-of-memory", e.res>> >>,
        <<"C02", e.res = "ok" /\ \E i \in 1..Len(e.early) : ~Usable(s1.rb, e.early[i]) \/ InKernel(s1, e.early[i]),
                 "early-boot frame outside usable RAM">>,
        <<"C02", e.res = "ok" /\ \E i \in 1..(Len(e.early) - 1) : ~W!Lt(e.early[i], e.early[i + 1]),
                 "early-boot frames not strictly ascending">>,
        <<"C03", e.res = "ok" /\ e.total - e.reserved # a,
                 <<"free total after init", e.total - e.reserved, "expected", a>> >> >>]

Totals(s, e, nheld) == e.total - e.reserved = s.n - nheld

MonAlloc(s, e) ==
  IF e.res = "ok"
  THEN [s |-> [s EXCEPT !.held = s.held \cup {e.f}],
        cs |-> <<
          <<"C01", ~Usable(s.rb, e.f), <<"frame outside available RAM handed out", e.f>> >>,
          <<"C01", InKernel(s, e.f), <<"kernel image frame handed out", e.f>> >>,
          <<"C01", e.f \in s.early, <<"early-boot frame handed out", e.f>> >>,
          <<"C01", e.f \in s.held, <<"frame handed out twice", e.f>> >>,
          <<"C03", ~Totals(s, e, Cardinality(s.held \cup {e.f})),
                   <<"totals after alloc: free reported", e.total - e.reserved, "expected", s.n - Cardinality(s.held \cup {e.f})>> >>,
          <<"C09", e.lock # 0, "lock still held after AllocFrame returned">> >>]
  ELSE [s |-> s,
        cs |-> <<
          <<"C03", e.res = "panic", "AllocFrame panicked">>,
          <<"C03", e.res # "panic" /\ Cardinality(s.held) # s.n,
                   <<"out of memory reported with usable frames left", s.n - Cardinality(s.held)>> >>,
          <<"C03", e.res # "panic" /\ ~Totals(s, e, Cardinality(s.held)), "totals changed by a failed alloc">>,
          <<"C09", e.res # "panic" /\ e.lock # 0, "lock still held after AllocFrame returned">> >>]

MonFree(s, e) ==
  IF e.f \in s.held
  THEN [s |-> [s EXCEPT !.held = s.held \ {e.f}],
        cs |-> <<
          <<"C03", e.res # "ok", <<"free of an allocated frame rejected", e.res>> >>,
          <<"C03", e.res = "ok" /\ ~Totals(s, e, Cardinality(s.held) - 1), "totals after free">>,
          <<"C09", e.res = "ok" /\ e.lock # 0, "lock still held after FreeFrame returned">> >>]
  ELSE [s |-> s,
        cs |-> <<
          <<"C03", e.res = "panic", <<"FreeFrame panicked", e.f>> >>,
          <<"C03", e.res = "ok", <<"free of an unmanaged or already-free frame accepted", e.f>> >>,
          <<"C03", e.res \notin {"ok", "panic"} /\ ~Totals(s, e, Cardinality(s.held)), "rejected free changed the totals">>,
          <<"C03", e.res \notin {"ok", "panic"} /\ e.lock # 0,
                   "rejected free did change something: it left the allocator locked, no frame can be allocated or freed any more">>,
          <<"C09", e.res \notin {"ok", "panic"} /\ e.lock # 0, "lock still held after FreeFrame returned">> >>]

Mon(s, e) ==
  CASE e.k = "binit"  -> MonBInit(s, e)
    [] e.k = "balloc" -> MonBAlloc(s, e)
    [] e.k = "breset" -> MonBReset(s, e)
    [] e.k = "handover" -> MonHandover(s, e)
    [] e.k = "init"   -> MonInit(s, e)
    [] e.k = "alloc"  -> MonAlloc(s, e)
    [] e.k = "free"   -> MonFree(s, e)
    [] e.k = "reset"  -> [s |-> S0, cs |-> <<>>]
====
