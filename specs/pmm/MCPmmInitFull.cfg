CONSTANTS PS = 4  PBits = 2  MaxAddr = 23  MaxRegions = 2  MaxKFrames = 2  WB = 4  MaxEarly = 2  MaxOps = 6
  Family = "all"  AllowFree = FALSE  Mode = "main"  Bug = ""  Emit = FALSE
  Props = {"C01", "C02", "C03"}
CONSTANT HistMaps <- MCHistMaps
INIT Init
NEXT Next
INVARIANT NoMismatch
INVARIANT EmitCase
INVARIANT EmitScript
VIEW View
CHECK_DEADLOCK FALSE
