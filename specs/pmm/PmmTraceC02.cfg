CONSTANT Props = {"C02"}
INIT Init
NEXT Next
POSTCONDITION Accepted
CHECK_DEADLOCK FALSE
